#!/usr/bin/env python3
"""./check <id> --replay <file>: re-run the recorded counterexample on the real code and show what it does."""
import sys, json, os
sys.path.insert(0, os.path.dirname(os.path.abspath(__file__)))
import common

f = sys.argv[1]
d = json.load(open(f))
print('property %s, obligation %s' % (d.get('property'), d.get('obligation')))
print('what:', d.get('what'))
cex = d.get('counterexample') or {}
script = cex.get('script') if isinstance(cex, dict) else None
if script:
    for prof in ('dev', 'release'):
        b = common.build_replay(prof)
        rep = common.run_replay(b, {'kernel': 'sm.oneshot', 'script': script})
        print('--- native run (%s profile) on the current tree; panic=%r' % (prof, rep.get('panic')))
        for e in rep.get('trace', []):
            if e.get('ev') in ('yield', 'http', 'metric', 'policy', 'installer', 'timer'):
                print('  ', e.get('ev'), (e.get('what') or e.get('op') or e.get('uri') or '')[:140])
    print('VIOLATION property=%s replay=%s' % (d.get('property'), f))
    sys.exit(1)
print('counterexample (symbolic path / solver model on the real MIR):')
print(json.dumps(cex, indent=1)[:4000])
if d.get('native'):
    print('native observation recorded at detection time:', json.dumps(d['native'])[:2000])
print('VIOLATION property=%s replay=%s' % (d.get('property'), f))
sys.exit(1)
