"""Shared runner plumbing: MIR dump regeneration, native replay build, evidence, known findings."""
import os, sys, json, time, hashlib, subprocess, fcntl, shutil, re

REPO = os.environ.get('VERIF_REPO', '/repo')
VERIF = os.path.dirname(os.path.dirname(os.path.abspath(__file__)))
SCRATCH = os.environ.get('VERIF_SCRATCH', os.path.join(VERIF, '.scratch'))
CRATE = os.path.join(REPO, 'omaha-client')
SRC = os.path.join(CRATE, 'src')
ENV = dict(os.environ, CARGO_NET_OFFLINE='true', CARGO_TERM_COLOR='never')

os.makedirs(SCRATCH, exist_ok=True)


def source_hash():
    h = hashlib.sha1()
    files = []
    for root in (SRC,):
        for dp, dn, fn in os.walk(root):
            for f in sorted(fn):
                files.append(os.path.join(dp, f))
    files += [os.path.join(CRATE, 'Cargo.toml'), os.path.join(REPO, 'Cargo.lock'), os.path.join(REPO, 'Cargo.toml')]
    for p in sorted(files):
        if os.path.exists(p):
            h.update(p.encode())
            h.update(open(p, 'rb').read())
    return h.hexdigest()


class Lock:
    def __init__(self, name):
        self.path = os.path.join(SCRATCH, name + '.lock')

    def __enter__(self):
        self.f = open(self.path, 'w')
        fcntl.flock(self.f, fcntl.LOCK_EX)
        return self

    def __exit__(self, *a):
        fcntl.flock(self.f, fcntl.LOCK_UN)
        self.f.close()


def get_mir(log=None):
    """MIR dump of /repo's *current* omaha-client sources (guard feature off = the code users run).
    Regenerated whenever the source tree hash differs from the one the cached dump was taken from."""
    h = source_hash()
    out = os.path.join(SCRATCH, 'omaha.mir')
    stamp = out + '.hash'
    with Lock('mir'):
        if os.path.exists(out) and os.path.exists(stamp) and open(stamp).read().strip() == h \
                and os.path.getsize(out) > 1000000:
            return out, h, 0.0
        t = time.time()
        tgt = os.path.join(SCRATCH, 'mir-target')
        # force a rebuild of the crate itself (dependencies stay cached)
        fp = os.path.join(tgt, 'debug', '.fingerprint')
        if os.path.isdir(fp):
            for d in os.listdir(fp):
                if d.startswith('omaha_client-') or d.startswith('omaha-client-'):
                    shutil.rmtree(os.path.join(fp, d), ignore_errors=True)
        cmd = ['cargo', '+nightly', 'rustc', '--offline', '--lib', '--', '-Zunpretty=mir',
               '-C', 'debug-assertions=off', '-C', 'overflow-checks=on']
        env = dict(ENV, CARGO_TARGET_DIR=tgt)
        tmp = out + '.tmp'
        with open(tmp, 'w') as fo, open(os.path.join(SCRATCH, 'mir.err'), 'w') as fe:
            r = subprocess.run(cmd, cwd=CRATE, env=env, stdout=fo, stderr=fe)
        if r.returncode != 0 or os.path.getsize(tmp) < 1000000:
            err = open(os.path.join(SCRATCH, 'mir.err')).read()[-3000:]
            raise BuildError('MIR dump failed (rustc exit %d):\n%s' % (r.returncode, err))
        os.replace(tmp, out)
        open(stamp, 'w').write(h)
        return out, h, time.time() - t


class BuildError(Exception):
    pass


def crate_dir(name):
    """harness crate directory; when the checks are pointed at another checkout (VERIF_REPO, used to test
    seeded changes side by side) a private copy with the path dependency rewritten"""
    src = os.path.join(VERIF, name)
    if REPO == '/repo':
        return src
    dst = os.path.join(SCRATCH, name + '-src')
    if os.path.isdir(dst):
        shutil.rmtree(dst)
    shutil.copytree(src, dst, ignore=shutil.ignore_patterns('target', 'Cargo.lock'))
    t = open(os.path.join(dst, 'Cargo.toml')).read().replace('"/repo/', '"%s/' % REPO)
    open(os.path.join(dst, 'Cargo.toml'), 'w').write(t)
    return dst


OUT = os.environ.get('VERIF_OUT', VERIF)


def build_replay(profile='dev'):
    """build the native replay harness against /repo's current tree; returns path of the binary"""
    tgt = os.path.join(SCRATCH, 'replay-target')
    with Lock('replay-' + profile):
        REPLAY_DIR = crate_dir('replay')
        shutil.copyfile(os.path.join(REPO, 'Cargo.lock'), os.path.join(REPLAY_DIR, 'Cargo.lock'))
        cmd = ['cargo', 'build', '--offline', '--quiet']
        if profile == 'release':
            cmd.append('--release')
        env = dict(ENV, CARGO_TARGET_DIR=tgt)
        r = subprocess.run(cmd, cwd=REPLAY_DIR, env=env, stdout=subprocess.PIPE, stderr=subprocess.STDOUT, text=True)
        if r.returncode != 0:
            raise BuildError('replay harness build failed:\n' + r.stdout[-4000:])
    return os.path.join(tgt, 'debug' if profile == 'dev' else 'release', 'replay')


def run_replay(binary, req, timeout=60):
    """run one replay request (dict) through the native harness; returns parsed JSON reply"""
    r = subprocess.run([binary], input=json.dumps(req), stdout=subprocess.PIPE, stderr=subprocess.PIPE,
                       text=True, timeout=timeout)
    out = r.stdout.strip().split('\n')[-1] if r.stdout.strip() else ''
    try:
        rep = json.loads(out)
    except Exception:
        rep = {'error': 'no json', 'stdout': r.stdout[-500:], 'stderr': r.stderr[-800:], 'rc': r.returncode}
    rep['_rc'] = r.returncode
    if r.returncode != 0 and 'panic' not in rep:
        rep['panic'] = r.stderr[-400:]
    return rep


def run_replay_batch(binary, reqs, timeout=300):
    """many requests through one process (one JSON per line)"""
    r = subprocess.run([binary, '--batch'], input='\n'.join(json.dumps(q) for q in reqs) + '\n',
                       stdout=subprocess.PIPE, stderr=subprocess.PIPE, text=True, timeout=timeout)
    outs = []
    for line in r.stdout.strip().split('\n'):
        if line.strip():
            try:
                outs.append(json.loads(line))
            except Exception:
                outs.append({'error': line[:200]})
    if len(outs) != len(reqs):
        raise BuildError('replay batch returned %d replies for %d requests; stderr: %s' % (len(outs), len(reqs), r.stderr[-1000:]))
    return outs


# ------------------------------------------------------------------ known findings

def load_known():
    """known_findings.txt: lines `known: property=<id> key=<key> <text>` and `fixed: property=<id> <commit> <text>`"""
    known = {}
    fixed = []
    p = os.path.join(VERIF, 'known_findings.txt')
    if os.path.exists(p):
        for l in open(p):
            l = l.strip()
            m = re.match(r'^known: property=(\S+) key=(\S+) (.*)$', l)
            if m:
                known.setdefault(m.group(1), {})[m.group(2)] = m.group(3)
            m = re.match(r'^fixed: property=(\S+) (\S+) (.*)$', l)
            if m:
                fixed.append((m.group(1), m.group(2), m.group(3)))
    return known, fixed


# ------------------------------------------------------------------ check bookkeeping

class Obligation:
    def __init__(self, name, desc):
        self.name = name
        self.desc = desc
        self.status = 'pending'     # holds | violated | inconclusive | known
        self.detail = None
        self.wall_s = 0.0
        self.queries = 0
        self.paths = 0
        self.cex = None             # dict describing the counterexample (replayable)
        self.key = None             # stable key for known-finding matching
        self.replayed = None


class Check:
    def __init__(self, pid, tier=None, seed=None):
        self.pid = pid
        self.tier = tier or os.environ.get('VERIF_TIER', 'quick')
        if self.tier not in ('quick', 'thorough'):
            self.tier = 'quick'
        try:
            self.seed = int(seed if seed is not None else os.environ.get('VERIF_SEED', '0'))
        except ValueError:
            self.seed = 0
        self.t0 = time.time()
        self.obligations = []
        self.samples = []
        self.assumptions = []
        self.bounds = {}
        self.functions = {}
        self.stats = dict(paths=0, queries=0, solver_s=0.0, steps=0)
        self.validated = 0
        self.extra = {}
        self.engine_notes = []
        self.part = os.environ.get('VERIF_PART') or None      # set in a child process running one part

    # ---- independent explorations of one check in parallel processes ---------------------------------
    def want(self, part):
        return self.part is None or self.part == part or self.part.startswith(part + ':')

    def parallel(self, script, parts, post_merge=None):
        """parent side: run every part of the check in its own process (same script, VERIF_PART=<part>),
        merge what they report.  Returns True when the parts were run this way (the caller has nothing left
        to do), False in a child or when VERIF_SERIAL=1 (the caller then runs the parts itself)."""
        if self.part is not None or os.environ.get('VERIF_SERIAL') == '1' or len(parts) < 2:
            return False
        try:
            get_mir()           # once, before the children ask for it
        except BuildError as e:
            print('INCONCLUSIVE: ' + str(e)[:2000])
            sys.exit(2)
        procs = []
        maxpar = int(os.environ.get('VERIF_JOBS', '8'))
        pending = list(parts)
        results = {}
        running = []
        while pending or running:
            while pending and len(running) < maxpar:
                pt = pending.pop(0)
                out = os.path.join(SCRATCH, 'part-%s-%s-%d.json' % (self.pid, re.sub(r'[^A-Za-z0-9_.-]', '_', pt), os.getpid()))
                if os.path.exists(out):
                    os.unlink(out)
                env = dict(os.environ, VERIF_PART=pt, VERIF_PART_OUT=out, VERIF_TIER=self.tier, VERIF_SEED=str(self.seed))
                log = open(out + '.log', 'w')
                running.append((pt, out, log, subprocess.Popen([sys.executable, script], env=env, stdout=log, stderr=subprocess.STDOUT)))
            time.sleep(0.2)
            still = []
            for pt, out, log, pr in running:
                if pr.poll() is None:
                    still.append((pt, out, log, pr))
                    continue
                log.close()
                results[pt] = (out, pr.returncode)
            running = still
        for pt in parts:
            out, rc = results[pt]
            try:
                d = json.load(open(out))
            except Exception:
                o = self.ob('part:' + pt, 'exploration part %s of this check' % pt)
                o.status = 'inconclusive'
                tail = open(out + '.log').read()[-600:] if os.path.exists(out + '.log') else ''
                o.detail = 'the part ended (exit %s) without a report: %s' % (rc, tail)
                continue
            finally:
                for f_ in (out, out + '.log'):
                    if os.path.exists(f_) and os.environ.get('VERIF_KEEP_PARTS') != '1':
                        try:
                            os.unlink(f_)
                        except OSError:
                            pass
            self._merge(d)
        self.extra['parts_run_in_parallel'] = list(parts)
        if post_merge is not None:
            post_merge(self)
        return True

    def _merge(self, d):
        rank = {'violated': 4, 'known': 3, 'inconclusive': 2, 'pending': 2, 'holds': 1}
        byname = dict((o.name, o) for o in self.obligations)
        for od in d['obligations']:
            o = byname.get(od['name'])
            if o is None or o.status == 'pending':
                if o is None:
                    o = self.ob(od['name'], od['desc'])
                    byname[o.name] = o
                o.status = od['status']
                o.detail = od['detail']
                o.wall_s, o.queries, o.paths = od['wall_s'], od['queries'], od['paths']
                o.cex, o.key, o.replayed = od['cex'], od['key'], od['replayed']
                continue
            o.wall_s = max(o.wall_s, od['wall_s'])
            o.queries += od['queries']
            o.paths += od['paths']
            if rank.get(od['status'], 2) > rank.get(o.status, 2):
                o.status, o.detail, o.cex, o.key, o.replayed = od['status'], od['detail'], od['cex'], od['key'], od['replayed']
            elif od['status'] == o.status == 'holds':
                o.detail = '%s | %s' % (o.detail, od['detail'])
        self.samples += d['samples']
        for a in d['assumptions']:
            if a not in self.assumptions:
                self.assumptions.append(a)
        self.bounds.update(d['bounds'])
        self.functions.update(d['functions'])
        for k, v in d['stats'].items():
            self.stats[k] = self.stats.get(k, 0) + v
        self.validated += d['validated']
        for k, v in d['extra'].items():
            if isinstance(v, list) and isinstance(self.extra.get(k), list):
                self.extra[k] = self.extra[k] + [x for x in v if x not in self.extra[k]]
            elif isinstance(v, dict) and isinstance(self.extra.get(k), dict):
                self.extra[k].update(v)
            else:
                self.extra[k] = v

    def _dump_part(self):
        d = {'obligations': [{'name': o.name, 'desc': o.desc, 'status': o.status, 'detail': o.detail, 'wall_s': o.wall_s,
                              'queries': o.queries, 'paths': o.paths, 'cex': o.cex, 'key': o.key, 'replayed': o.replayed}
                             for o in self.obligations],
             'samples': self.samples, 'assumptions': self.assumptions, 'bounds': self.bounds, 'functions': self.functions,
             'stats': self.stats, 'validated': self.validated, 'extra': self.extra}
        tmp = os.environ['VERIF_PART_OUT'] + '.tmp'
        with open(tmp, 'w') as f:
            json.dump(json.loads(json.dumps(d, default=str)), f)
        os.replace(tmp, os.environ['VERIF_PART_OUT'])

    def ob(self, name, desc):
        o = Obligation(name, desc)
        self.obligations.append(o)
        return o

    def absorb(self, ex):
        """merge executor statistics and the list of encoded functions"""
        for k in ('paths', 'queries', 'solver_s', 'steps'):
            self.stats[k] += ex.stats.get(k, 0)
        for n, (h, nl) in ex.encoded.items():
            self.functions[n] = {'mir_sha1': h, 'mir_lines': nl}

    def finish(self):
        if self.part is not None:
            self._dump_part()
            for o in self.obligations:
                print('%-12s %-28s %s' % (o.status.upper(), o.name, (o.detail or '')[:160]))
            return 0
        self.assumptions = list(dict.fromkeys(self.assumptions))
        known, fixed = load_known()
        kn = known.get(self.pid, {})
        viol = []
        inconc = []
        for o in self.obligations:
            if o.status == 'violated':
                if o.key and o.key in kn:
                    o.status = 'known'
                    print('KNOWN-FINDING: property=%s %s (%s)' % (self.pid, kn[o.key], o.key))
                else:
                    viol.append(o)
            elif o.status in ('inconclusive', 'pending'):
                inconc.append(o)
        ev = {
            'property_id': self.pid,
            'tier': self.tier,
            'seed': self.seed,
            'level': 'model_checking',
            'coverage': {
                'states': max(1, int(self.stats['paths'] + self.stats.get('steps', 0))),
                'transitions': max(1, int(self.stats['queries'])),
                'traces_validated_against_impl': int(self.validated),
                'samples': self.samples[:40] or ['(no samples)'],
                'paths_explored': int(self.stats['paths']),
                'solver_queries': int(self.stats['queries']),
                'solver_time_s': round(self.stats['solver_s'], 3),
                'obligations': len(self.obligations),
                'discharged': len([o for o in self.obligations if o.status == 'holds']),
                'obligation_list': [{'name': o.name, 'what': o.desc, 'status': o.status, 'detail': o.detail,
                                     'wall_s': round(o.wall_s, 3), 'paths': o.paths, 'queries': o.queries}
                                    for o in self.obligations],
                'functions_encoded': self.functions,
                'bounds': self.bounds,
                'exhaustive': False,
            },
            'assumptions': self.assumptions,
            'wall_s': round(time.time() - self.t0, 2),
            'violations': len(viol),
        }
        ev['coverage'].update(self.extra)
        os.makedirs(os.path.join(OUT, 'evidence'), exist_ok=True)
        with open(os.path.join(OUT, 'evidence', self.pid + '.json'), 'w') as f:
            json.dump(ev, f, indent=1, default=str)
        for o in self.obligations:
            print('%-12s %-28s %s%s' % (o.status.upper(), o.name, (o.detail or '')[:160],
                                        '' if not o.wall_s else '  [%.1fs]' % o.wall_s))
        if viol:
            os.makedirs(os.path.join(OUT, 'replays'), exist_ok=True)
            for i, o in enumerate(viol):
                p = os.path.join(OUT, 'replays', '%s-%s.json' % (self.pid, re.sub(r'[^A-Za-z0-9_.-]', '_', o.name)))
                with open(p, 'w') as f:
                    json.dump({'property': self.pid, 'obligation': o.name, 'what': o.desc, 'key': o.key,
                               'counterexample': o.cex, 'native': o.replayed}, f, indent=1, default=str)
                print('VIOLATION property=%s replay=%s' % (self.pid, p))
            return 1
        if inconc:
            for o in inconc:
                print('INCONCLUSIVE property=%s obligation=%s %s' % (self.pid, o.name, (o.detail or '')[:300]))
            return 2
        return 0
