"""Runs Kani proof harnesses of /verif/kani against /repo's current tree and parses the verdicts."""
import os, re, subprocess, shutil, time
import common



def run_harnesses(names=None, timeout=1500):
    """returns {harness: {'status': 'success'|'failed'|'inconclusive', 'time_s':.., 'detail':..}}"""
    KANI_DIR = common.crate_dir('kani')
    shutil.copyfile(os.path.join(common.REPO, 'Cargo.lock'), os.path.join(KANI_DIR, 'Cargo.lock'))
    env = dict(common.ENV, CARGO_TARGET_DIR=os.path.join(common.SCRATCH, 'kani-target'))
    cmd = ['cargo', 'kani']
    for n in names or []:
        cmd += ['--harness', n]
    t = time.time()
    with common.Lock('kani'):
        try:
            r = subprocess.run(cmd, cwd=KANI_DIR, env=env, stdout=subprocess.PIPE, stderr=subprocess.STDOUT, text=True, timeout=timeout)
            out = r.stdout
        except subprocess.TimeoutExpired as e:
            out = (e.stdout or '') if isinstance(e.stdout, str) else ''
            out += '\nTIMEOUT'
    res = {}
    cur = None
    for line in out.split('\n'):
        m = re.match(r'^Checking harness (\S+)\.\.\.', line)
        if m:
            cur = m.group(1).split('::')[-1]
            res[cur] = {'status': 'inconclusive', 'detail': '', 'time_s': None, 'covers': None}
            continue
        if cur is None:
            continue
        if line.startswith('VERIFICATION:- SUCCESSFUL'):
            res[cur]['status'] = 'success'
        elif line.startswith('VERIFICATION:- FAILED'):
            res[cur]['status'] = 'failed'
        m = re.match(r'^Verification Time: ([0-9.]+)s', line)
        if m:
            res[cur]['time_s'] = float(m.group(1))
        m = re.match(r'^ \*\* (\d+) of (\d+) cover properties satisfied', line)
        if m:
            res[cur]['covers'] = (int(m.group(1)), int(m.group(2)))
        if line.startswith('Failed Checks:'):
            res[cur]['detail'] += line[len('Failed Checks:'):].strip() + '; '
            if 'unwinding assertion' in line:
                res[cur]['status'] = 'inconclusive'
    for n in names or []:
        if n not in res:
            res[n] = {'status': 'inconclusive', 'detail': 'harness did not run: ' + out[-600:], 'time_s': None, 'covers': None}
    for n, v in res.items():
        if v['status'] == 'failed' and 'unwinding' in v['detail']:
            v['status'] = 'inconclusive'
        if v['status'] == 'success' and v['covers'] and v['covers'][0] != v['covers'][1]:
            v['status'] = 'inconclusive'
            v['detail'] += 'vacuity witness not satisfied (%d of %d covers)' % v['covers']
    return res, time.time() - t, out
