"""Facts read from the crate's *source* that the MIR text omits: enum variant order,
struct field order, and the `impl` header at a given file:line (MIR names methods
`module::<impl at file:line:col: line:col>::method`).  Re-read from /repo on every run."""
import re, os, functools

STD_ENUMS = {
    'Option': ['None', 'Some'],
    'Result': ['Ok', 'Err'],
    'Poll': ['Ready', 'Pending'],
    'ControlFlow': ['Continue', 'Break'],
    'Cow': ['Borrowed', 'Owned'],
    'Either': ['Left', 'Right'],
    'MaybeDone': ['Future', 'Done', 'Gone'],
}


def strip_comments(src):
    # remove // comments and /* */ comments but keep line structure; keep strings intact enough
    out = []
    i = 0
    n = len(src)
    while i < n:
        c = src[i]
        if c == '"':
            j = i + 1
            while j < n and src[j] != '"':
                if src[j] == '\\':
                    j += 1
                j += 1
            out.append('"' + ' ' * 0 + re.sub(r'[^\n]', ' ', src[i + 1:j]) + '"')
            i = j + 1
            continue
        if src.startswith('//', i):
            j = src.find('\n', i)
            if j < 0:
                j = n
            i = j
            continue
        if src.startswith('/*', i):
            j = src.find('*/', i)
            out.append(re.sub(r'[^\n]', ' ', src[i:j + 2]))
            i = j + 2
            continue
        if c == "'" and i + 2 < n and (src[i + 2] == "'" or (src[i + 1] == '\\' and src.find("'", i + 2) - i <= 4)):
            j = src.find("'", i + 2 if src[i + 1] == '\\' else i + 1)
            out.append("' '")
            i = j + 1
            continue
        out.append(c)
        i += 1
    return ''.join(out)


def _match(src, i, o='{', c='}'):
    d = 0
    n = len(src)
    while i < n:
        if src[i] == o:
            d += 1
        elif src[i] == c:
            d -= 1
            if d == 0:
                return i
        i += 1
    return -1


def _split_top(s):
    out = []
    d = 0
    a = 0
    st = 0
    for i, ch in enumerate(s):
        if ch in '([{':
            d += 1
        elif ch in ')]}':
            d -= 1
        elif ch == '<':
            a += 1
        elif ch == '>' and i > 0 and s[i - 1] not in '-=' and a > 0:
            a -= 1
        elif ch == ',' and d == 0 and a == 0:
            out.append(s[st:i])
            st = i + 1
    out.append(s[st:])
    return [x.strip() for x in out if x.strip()]


def _strip_attrs(s):
    # remove #[...] attributes
    while True:
        m = re.search(r'#!?\[', s)
        if not m:
            return s
        j = _match(s, m.end() - 1, '[', ']')
        s = s[:m.start()] + s[j + 1:]


class SrcInfo:
    def __init__(self, root):
        self.root = root
        self.enums = dict((k, list(v)) for k, v in STD_ENUMS.items())   # name -> [variant names]
        self.enum_discr = {}                                             # name -> {variant: explicit value}
        self.structs = {}                                                # name -> [field names]
        self.files = {}
        self.by_mod = {}            # (kind, module path, name) -> list
        self._mod = ''
        for dp, dn, fn in os.walk(root):
            for f in fn:
                if f.endswith('.rs'):
                    p = os.path.join(dp, f)
                    raw = open(p).read()
                    self.files[os.path.relpath(p, os.path.dirname(os.path.dirname(root)) if False else root)] = raw
                    rel = os.path.relpath(p, root)[:-3]
                    self._mod = '' if rel in ('lib',) else rel.replace('/mod', '').replace('/', '::')
                    self._scan(strip_comments(raw))

    def _scan(self, src):
        for m in re.finditer(r'\benum\s+([A-Za-z_0-9]+)\s*(<[^{]*?>)?\s*(where[^{]*)?\{', src):
            j = _match(src, m.end() - 1)
            body = _strip_attrs(src[m.end():j])
            names = []
            discr = {}
            for part in _split_top(body):
                mm = re.match(r'^([A-Za-z_0-9]+)', part)
                if mm:
                    names.append(mm.group(1))
                    me = re.search(r'=\s*(-?\d+)\s*$', part)
                    if me:
                        discr[mm.group(1)] = int(me.group(1))
            self.by_mod[('enum', self._mod, m.group(1))] = names
            if m.group(1) not in self.enums:
                self.enums[m.group(1)] = names
                if discr:
                    self.enum_discr[m.group(1)] = discr
        for m in re.finditer(r'\bstruct\s+([A-Za-z_0-9]+)\s*(<[^{;(]*?>)?\s*(where[^{;]*)?\{', src):
            j = _match(src, m.end() - 1)
            body = _strip_attrs(src[m.end():j])
            names = []
            for part in _split_top(body):
                mm = re.match(r'^(?:pub(?:\([a-z ]+\))?\s+)?([A-Za-z_0-9]+)\s*:', part)
                if mm:
                    names.append(mm.group(1))
            self.by_mod[('struct', self._mod, m.group(1))] = names
            self.structs.setdefault(m.group(1), names)

    def variant_index(self, enum_name, variant):
        vs = self.enums.get(enum_name)
        if vs and variant in vs:
            return vs.index(variant)
        return None

    def variant_discr(self, enum_name, variant):
        """the value `discriminant()` yields (explicit discriminants honoured)"""
        idx = self.variant_index(enum_name, variant)
        if idx is None:
            return None
        d = self.enum_discr.get(enum_name)
        if not d:
            return idx
        cur = -1
        for v in self.enums[enum_name]:
            cur = d.get(v, cur + 1)
            if v == variant:
                return cur

    def fields_of(self, type_path):
        """field names of the struct named by a (possibly module-qualified) MIR type path"""
        t = type_path.strip()
        name = simple_name(t)
        cands = [(k[1], v) for k, v in self.by_mod.items() if k[0] == 'struct' and k[2] == name]
        if not cands:
            return None
        if len(cands) == 1:
            return cands[0][1]
        # choose by longest module suffix match against the path prefix
        prefix = re.sub(r'<.*', '', t)
        prefix = '::'.join(prefix.split('::')[:-1])
        best = None
        for mod, v in cands:
            if prefix and (mod.endswith(prefix) or prefix.endswith(mod)):
                if best is None or len(mod) > len(best[0]):
                    best = (mod, v)
        return best[1] if best else cands[0][1]

    def field_index(self, struct, field):
        fs = self.fields_of(struct) if '::' in struct else self.structs.get(struct)
        if fs and field in fs:
            return fs.index(field)
        return None

    @functools.lru_cache(maxsize=None)
    def impl_at(self, relfile, line, col):
        """returns (trait_or_None, type_name) for `impl at relfile:line:col`"""
        # relfile like omaha-client/src/x.rs ; root is .../omaha-client/src
        key = relfile.split('/src/', 1)[1] if '/src/' in relfile else relfile
        raw = self.files.get(key)
        if raw is None:
            return None
        lines = raw.split('\n')
        txt = '\n'.join(lines[line - 1:line + 30])
        head = lines[line - 1][col - 1:]
        if head.startswith('impl'):
            t = strip_comments('\n'.join([lines[line - 1][col - 1:]] + lines[line:line + 30]))
            j = t.find('{')
            hdr = t[:j]
            hdr = hdr.split(' where ')[0].split('\nwhere')[0]
            hdr = hdr[4:].strip()
            if hdr.startswith('<'):
                # generics
                d = 0
                for i, ch in enumerate(hdr):
                    if ch == '<':
                        d += 1
                    elif ch == '>' and hdr[i - 1] != '-':
                        d -= 1
                        if d == 0:
                            hdr = hdr[i + 1:].strip()
                            break
            m = re.match(r'^(.*?)\s+for\s+(.*)$', hdr, re.S)
            if m:
                return (simple_name(m.group(1)), simple_name(m.group(2)))
            return (None, simple_name(hdr))
        # derive: head starts with the trait name inside #[derive(...)]
        m = re.match(r'^([A-Za-z_:]+)', head)
        trait = m.group(1).split('::')[-1] if m else None
        t = strip_comments('\n'.join(lines[line - 1:line + 40]))
        m = re.search(r'\b(struct|enum)\s+([A-Za-z_0-9]+)', t)
        if m:
            return (trait, m.group(2))
        return None


def simple_name(t):
    """last path segment of a type/trait, generics and references stripped"""
    t = t.strip()
    while True:
        t2 = re.sub(r"^(&\s*('[a-z_]+\s+)?(mut\s+)?|dyn\s+|impl\s+)", '', t)
        if t2 == t:
            break
        t = t2
    # cut generics
    d = 0
    out = []
    for i, ch in enumerate(t):
        if ch == '<':
            d += 1
        elif ch == '>' and (i == 0 or t[i - 1] != '-'):
            d -= 1
        elif d == 0:
            out.append(ch)
    t = ''.join(out).strip()
    return t.split('::')[-1].strip()
