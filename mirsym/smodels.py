"""Models for the async plumbing and the abstraction boundaries of the state machine:
futures combinators, mutex/Rc derefs, tracing (off), Yield, RequestBuilder (as an operation log),
http response accessors, containers with concrete shape.
"""
import re
import z3
from engine import (Sc, Tree, Ptr, Obj, UNIT, Fork, Inconclusive, Event, PUSHED, NOTHING, INT_BITS,
                    int_range, type_head, type_args, pointee, strip_ref, is_string_ty)
import models
from models import (model, pattern, MODELS, PATTERNS, mk_enum, some, none, ok, err, ready, pending, deref,
                    deref_all, payload, enum_cases, fork_on, inner_ty, call_fnlike, I)


def install(ex):
    ex.models.update(MODELS)
    for p in PATTERNS:
        if p not in ex.model_patterns:
            ex.model_patterns.append(p)


# ------------------------------------------------------------------ tracing: logging is off

@model('<Level as PartialOrd>::le', '<Level as PartialOrd>::lt', '<Level as PartialOrd>::ge')
def m_level_le(ex, st, args, dty, canon):
    return Sc(z3.BoolVal(False), 'bool')


# ------------------------------------------------------------------ pointers-like wrappers

@pattern(r'^Pin::<.*>::new_unchecked$|^Pin::<.*>::new$|^std::pin::Pin::<.*>::new(_unchecked)?$')
def m_pin_new(ex, st, args, dty, canon):
    return Tree({0: args[0]}, None, 'Pin')


@pattern(r'^Pin::<.*>::(as_mut|get_mut|get_unchecked_mut|into_inner|get_ref|as_ref)$|^std::pin::Pin::<.*>::(as_mut|get_mut|get_unchecked_mut)$')
def m_pin_as_mut(ex, st, args, dty, canon):
    p = deref_all(ex, st, args[0]) if canon[3] in ('as_mut', 'as_ref') else args[0]
    inner = p.f.get(0) if isinstance(p, Tree) else p
    if canon[3] in ('as_mut', 'as_ref'):
        # Pin<&mut Pin<P>> -> Pin<&mut P::Target>
        if isinstance(inner, Ptr):
            return Tree({0: inner}, None, 'Pin')
        raise Inconclusive('Pin::as_mut on %r' % (p,))
    return inner


@pattern(r'^<(Rc|Arc|Box|std::rc::Rc|std::boxed::Box|MutexGuard|futures::lock::MutexGuard)<.*> as (Deref|DerefMut)>::(deref|deref_mut)$')
def m_deref_smart(ex, st, args, dty, canon):
    # arg: &SmartPtr<T>; the smart pointer value is itself a Ptr to its pointee
    v = deref(ex, st, args[0])
    if isinstance(v, Ptr):
        return v
    if isinstance(v, Tree) and v.origin is not None:
        return Ptr(v.origin + '*', ())
    raise Inconclusive('deref of smart pointer value %r' % (v,))


@pattern(r'^<(Rc|Arc|std::rc::Rc)<.*> as Clone>::clone$')
def m_rc_clone(ex, st, args, dty, canon):
    v = deref(ex, st, args[0])
    if isinstance(v, Tree) and v.origin is not None and not v.f:
        return Ptr(v.origin + '*', ())
    return v


@pattern(r'^<.* as Clone>::clone$')
def m_clone(ex, st, args, dty, canon):
    return deref(ex, st, args[0])


@pattern(r'^<.* as ToOwned>::to_owned$|^<.* as ToString>::to_string$|^<String as From<&str>>::from$|^<impl str>::to_string$')
def m_to_owned(ex, st, args, dty, canon):
    return deref_all(ex, st, args[0])


@pattern(r'^<(std::string::)?String as Deref>::deref$|^(std::string::)?String::as_str$|^<(std::string::)?String as AsRef<str>>::as_ref$|Option::<(std::string::)?String>::as_deref$')
def m_string_deref(ex, st, args, dty, canon):
    v = deref(ex, st, args[0])
    if canon[3] == 'as_deref':
        return v
    return v


@pattern(r'^std::mem::drop::<.*>$|^drop::<.*>$|^mem::drop$')
def m_drop(ex, st, args, dty, canon):
    return UNIT


# ------------------------------------------------------------------ futures

def fut(kind, *data):
    return Obj('fut', (kind,) + tuple(data))


def poll_value(ex, st, fv, fptr, cx, cont, out_ty=None):
    """poll future value fv (stored at fptr, may be None); cont(ex, st, poll_value) receives Poll<T>.
    Returns PUSHED if a frame was pushed, else the value returned by cont."""
    if isinstance(fv, Tree) and fv.ty and fv.ty.startswith('{coroutine@'):
        body = ex.coroutine_body(fv)
        if body is None:
            raise Inconclusive('no body for coroutine %s' % fv.ty)
        if fptr is None:
            st.nfid += 1
            cell = (st.nfid, 'fut')
            st.cells[cell] = fv
            fptr = Ptr(cell, ())
        ex.new_frame(st, body, [Tree({0: fptr}, None, 'Pin'), cx], on_return=cont)
        return PUSHED
    if isinstance(fv, Obj) and fv.kind == 'fut':
        k = fv.data[0]
        if k == 'ready':
            return cont(ex, st, ready(fv.data[1]))
        if k == 'pending_forever':
            return cont(ex, st, pending())
        if k == 'map':
            inner, clo = fv.data[1], fv.data[2]

            def after(ex2, s2, pv):
                d = z3.simplify(ex2.discr_of(s2, pv).t)
                if not z3.is_int_value(d):
                    raise Inconclusive('symbolic Poll discriminant in map')
                if d.as_long() == 1:
                    return cont(ex2, s2, pending())
                val = payload(ex2, s2, pv, 0, 0)

                def after2(ex3, s3, r):
                    return cont(ex3, s3, ready(r))
                r = call_fnlike(ex2, s2, clo, [val], after2)
                return r
            return poll_value(ex, st, inner, None, cx, after)
        if k == 'unwrap_or_else':
            inner, clo = fv.data[1], fv.data[2]

            def after(ex2, s2, pv):
                d = z3.simplify(ex2.discr_of(s2, pv).t)
                if not z3.is_int_value(d):
                    raise Inconclusive('symbolic Poll discriminant in unwrap_or_else')
                if d.as_long() == 1:
                    return cont(ex2, s2, pending())
                res = payload(ex2, s2, pv, 0, 0)
                cases = enum_cases(ex2, s2, res, 2)

                def on(s3, i):
                    if i == 0:
                        return cont(ex2, s3, ready(payload(ex2, s3, res, 0, 0)))

                    def after2(ex3, s4, r):
                        return cont(ex3, s4, ready(r))
                    return call_fnlike(ex2, s3, clo, [payload(ex2, s3, res, 1, 0)], after2)
                if len(cases) == 1 and cases[0][0] is None:
                    return on(s2, cases[0][1])
                raise Fork([(c, (lambda i: (lambda s: (on(s, i), NOTHING)[1]))(i)) for c, i in cases])
            return poll_value(ex, st, inner, None, cx, after)
        if k == 'join':
            a, b = fv.data[1], fv.data[2]

            def after_a(ex2, s2, pa):
                def after_b(ex3, s3, pb):
                    da = z3.simplify(ex3.discr_of(s3, pa).t)
                    db = z3.simplify(ex3.discr_of(s3, pb).t)
                    if z3.is_int_value(da) and z3.is_int_value(db):
                        if da.as_long() == 0 and db.as_long() == 0:
                            return cont(ex3, s3, ready(Tree({0: payload(ex3, s3, pa, 0, 0), 1: payload(ex3, s3, pb, 0, 0)}, None, None)))
                        return cont(ex3, s3, pending())
                    raise Inconclusive('symbolic Poll in join')
                return poll_value(ex2, s2, b, None, cx, after_b)
            return poll_value(ex, st, a, None, cx, after_a)
        raise Inconclusive('poll of future kind %s' % k)
    if isinstance(fv, Tree) and fv.origin is not None:
        # environment future (BoxFuture returned by a trait method of the environment)
        ot = out_ty
        if ot is None and fv.ty:
            m = re.search(r'Output = (.*?)>\s*(\+|>|$)', fv.ty)
        name = fv.origin + '!out'
        mode = ex.cfg.get('env_pending')
        val = ex.mk_sym(ot, name) if ot else Tree({}, name, None)
        hook = ex.cfg.get('env_assume')
        if hook is not None:
            m = re.match(r'^ev(\d+)$', fv.origin)
            if m and int(m.group(1)) < len(st.trace):
                hook(ex, st, st.trace[int(m.group(1))].name + '!out', val, ot)
        return cont(ex, st, ready(val))
    if isinstance(fv, Ptr):
        return poll_value(ex, st, deref(ex, st, fv), fv, cx, cont, out_ty)
    if isinstance(fv, Tree) and 0 in fv.f and len(fv.f) == 1:
        # Pin<P> / Fuse<F> wrappers modelled transparently
        return poll_value(ex, st, fv.f[0], None, cx, cont, out_ty)
    raise Inconclusive('poll of %r' % (fv,))


@pattern(r' as Future>::poll$| as futures::Future>::poll$| as std::future::Future>::poll$')
def m_future_poll(ex, st, args, dty, canon):
    pin = args[0]
    p = pin.f.get(0) if isinstance(pin, Tree) else pin
    if not isinstance(p, Ptr):
        raise Inconclusive('poll: pin without pointer %r' % (pin,))
    fv = deref(ex, st, p)
    # Pin<&mut Pin<Box<F>>> : one more level
    if isinstance(fv, Tree) and fv.origin is None and 0 in fv.f and isinstance(fv.f[0], Ptr) and len(fv.f) == 1 and not (fv.ty or '').startswith('{coroutine'):
        p = fv.f[0]
        fv = deref(ex, st, p)
    out_ty = inner_ty(dty) if dty else None
    caller = st.frames[-1]
    term = caller.fn.blocks[caller.bb].term
    dcell, dpath, _ = ex.resolve(st, caller, term.place)

    def cont(ex2, s2, pv):
        ex2.store(s2, dcell, dpath, pv)
        c2 = s2.frames[-1]
        c2.bb, c2.idx = term.target, 0
        return NOTHING
    if isinstance(fv, Tree) and fv.ty and fv.ty.startswith('{coroutine@'):
        body = ex.coroutine_body(fv)
        if body is None:
            raise Inconclusive('no body for coroutine %s' % fv.ty)
        caller.bb, caller.idx = term.target, 0
        ex.new_frame(st, body, [Tree({0: p}, None, 'Pin'), args[1]], dest=(dcell, dpath), ret_bb=term.target)
        return NOTHING
    if getattr(ex, 'poll_hooks', False):
        poll2(ex, st, fv, p, args[1], cont, out_ty)
    else:
        poll_value(ex, st, fv, p, args[1], cont, out_ty)
    return NOTHING


@pattern(r'^<.* as FutureExt>::map(::<.*>)?$')
def m_fut_map(ex, st, args, dty, canon):
    return fut('map', args[0], args[1])


@pattern(r'^<.* as TryFutureExt>::unwrap_or_else(::<.*>)?$')
def m_fut_unwrap_or_else(ex, st, args, dty, canon):
    return fut('unwrap_or_else', args[0], args[1])


@pattern(r'^<.* as FutureExt>::(boxed|boxed_local|fuse)$|^Box::<.*>::pin$')
def m_fut_boxed(ex, st, args, dty, canon):
    return args[0]


@pattern(r'^futures::future::join::<.*>$|^future::join::<.*>$|^join::<.*>$|^futures::futures_util::future::join::<.*>$')
def m_fut_join(ex, st, args, dty, canon):
    return fut('join', args[0], args[1])


@pattern(r'^futures::future::ready::<.*>$|^future::ready::<.*>$|^std::future::ready::<.*>$')
def m_fut_ready(ex, st, args, dty, canon):
    return fut('ready', args[0])


@pattern(r'^(futures::lock::)?Mutex::<.*>::lock$')
def m_mutex_lock(ex, st, args, dty, canon):
    # &Mutex<T> -> future of MutexGuard<T>; the guard is a pointer to the protected value
    m = args[0]
    if not isinstance(m, Ptr):
        raise Inconclusive('Mutex::lock on %r' % (m,))
    st.trace.append(Event('lock', str(m.cell), ()))
    return fut('ready', m)


# ------------------------------------------------------------------ Yield (event emission)

@pattern(r'^Yield::<.*>::yield_$|^async_generator::Yield::<.*>::yield_$')
def m_yield(ex, st, args, dty, canon):
    st.trace.append(Event('yield', 'yield', (args[1],)))
    return fut('ready', UNIT)


# ------------------------------------------------------------------ Result residual conversion

@pattern(r'^<(std::result::)?Result<.*> as FromResidual<(std::result::)?Result<(std::convert::)?Infallible, .*>>>::from_residual$')
def m_from_residual(ex, st, args, dty, canon):
    raw = canon[4]
    k = ex._match_angle(raw, 0)
    inner = raw[1:k]
    parts = ex._split_as(inner)
    target = parts[0]
    src = parts[1]
    F = type_args(target)[1].strip()
    E = type_args(type_args(src)[0])[1].strip()
    e = payload(ex, st, args[0], 1, 0, E)
    if simple(F) == simple(E) and F.split('::')[-1] == E.split('::')[-1]:
        return err(e)
    d = find_from(ex, F, E)
    if d is None:
        st.notes.append(('from-havoc', F, E))
        return err(ex.mk_sym(F, 'hv!' + st.fresh('from')))
    caller = st.frames[-1]
    term = caller.fn.blocks[caller.bb].term
    dcell, dpath, _ = ex.resolve(st, caller, term.place)

    def cont(ex2, s2, v):
        ex2.store(s2, dcell, dpath, err(v))
        c2 = s2.frames[-1]
        c2.bb, c2.idx = term.target, 0
    ex.new_frame(st, d, [e], on_return=cont)
    return NOTHING


def simple(t):
    from srcinfo import simple_name
    return simple_name(t)


def find_from(ex, F, E):
    """the crate's `impl From<E> for F` body, by signature"""
    cands = [f for f in ex.order if f.kind == 'fn' and f.name.endswith('::from') and len(f.args) == 1
             and simple(f.ret) == simple(F) and simple(f.args[0][1]) == simple(E)]
    hs = set(c.text_hash for c in cands)
    if len(hs) == 1:
        return cands[0]
    if len(hs) > 1:
        # same last segment (several `Error` types): compare module-qualified paths
        def norm(t):
            return re.sub(r'<.*>', '', t.strip()).replace('std::', '').replace('hyper::', 'http::') if False else re.sub(r'<.*>', '', t.strip())
        e = norm(E)
        best = [c for c in cands if norm(c.args[0][1]) == e or norm(c.args[0][1]).endswith('::' + e) or e.endswith('::' + norm(c.args[0][1]))]
        if len(set(c.text_hash for c in best)) == 1:
            return best[0]
    return None


@pattern(r'^<(i|u)(8|16|32|64|128|size) as From<((i|u)(8|16|32|64|128|size)|bool|char)>>::from$|^<((i|u)(8|16|32|64|128|size)|bool|char) as Into<(i|u)(8|16|32|64|128|size)>>::into$')
def m_int_from(ex, st, args, dty, canon):
    """From/Into between primitive integers exist only where lossless: the value is kept"""
    m_ = re.match(r'^<(\w+) as (From|Into)<(\w+)>>', canon[4])
    target = m_.group(1) if m_.group(2) == 'From' else m_.group(3)
    a = args[0]
    if a.ty == 'bool':
        return Sc(z3.If(a.t, I(1), I(0)), target)
    return Sc(a.t, target)


@pattern(r'^<.* as From<.*>>::from$|^<.* as Into<.*>>::into$')
def m_from_into(ex, st, args, dty, canon):
    raw = canon[4]
    k = ex._match_angle(raw, 0)
    parts = ex._split_as(raw[1:k])
    a, tr = parts[0].strip(), parts[1].strip()
    targ = type_args(tr)[0] if type_args(tr) else None
    if canon[3] == 'from':
        F, E = a, targ
    else:
        F, E = targ, a
    if F and E and simple(F) == simple(E):
        return args[0]
    d = find_from(ex, F, E) if F and E else None
    if d is not None:
        caller = st.frames[-1]
        term = caller.fn.blocks[caller.bb].term
        dcell, dpath, _ = ex.resolve(st, caller, term.place)
        caller.bb, caller.idx = term.target, 0
        ex.new_frame(st, d, [args[0]], dest=(dcell, dpath), ret_bb=term.target)
        return NOTHING
    # Option<T>: From<T>
    if F and type_head(F) == 'Option' and E and simple(type_args(F)[0]) == simple(E):
        return some(args[0])
    st.notes.append(('from-havoc', F, E))
    ex.havoc_log['from:%s<-%s' % (simple(F or '?'), simple(E or '?'))] = ex.havoc_log.get('from:%s<-%s' % (simple(F or '?'), simple(E or '?')), 0) + 1
    return ex.mk_sym(dty, 'hv!' + st.fresh('from'))      # unknown conversion: tainted like any havoc


# ------------------------------------------------------------------ structural equality

def struct_eq(ex, st, a, b, ty, depth=0):
    """z3 Bool: a == b for values of (std-known) type ty"""
    ty = (ty or '').strip()
    r = strip_ref(ty)
    if r is not None:
        return struct_eq(ex, st, deref(ex, st, a), deref(ex, st, b), r, depth)
    if isinstance(a, Sc) and isinstance(b, Sc):
        return a.t == b.t
    h = type_head(ty)
    if h == 'Option':
        it = inner_ty(ty)
        da, db = ex.discr_of(st, a, ty).t, ex.discr_of(st, b, ty).t
        for d_ in (z3.simplify(da), z3.simplify(db)):
            if z3.is_int_value(d_) and d_.as_long() == 0:
                return da == db         # a literal None: nothing to compare below the discriminant
        pa, pb = payload(ex, st, a, 1, 0, it), payload(ex, st, b, 1, 0, it)
        return z3.And(da == db, z3.Implies(da == 1, struct_eq(ex, st, pa, pb, it, depth + 1)))
    if h == 'Duration':
        sa, na = models.dur_parts(ex, st, a)
        sb, nb = models.dur_parts(ex, st, b)
        return z3.And(sa == sb, na == nb)
    if h in ('SystemTime', 'Instant'):
        sa, na = models.time_parts(ex, st, a)
        sb, nb = models.time_parts(ex, st, b)
        return z3.And(sa == sb, na == nb)
    if ty in INT_BITS or ty == 'bool' or is_string_ty(ty):
        return a.t == b.t
    raise Inconclusive('structural equality on type %s' % ty)


@pattern(r'^<&?(std::option::)?Option<.*> as PartialEq>::(eq|ne)$')
def m_option_eq(ex, st, args, dty, canon):
    raw = canon[4]
    k = ex._match_angle(raw, 0)
    ty = ex._split_as(raw[1:k])[0].lstrip('&').strip()
    a = deref_all(ex, st, args[0])
    b = deref_all(ex, st, args[1])
    it_ = inner_ty(ty)
    ith = type_head(it_ or '')
    if it_ and not (ith in ('Option', 'Duration', 'SystemTime', 'Instant') or it_ in INT_BITS or it_ == 'bool' or is_string_ty(it_) or strip_ref(it_)):
        # a crate type inside: both None -> equal; both Some -> the type's own eq body; else different
        da, db = ex.discr_of(st, a, ty).t, ex.discr_of(st, b, ty).t
        finish = _call_site(ex, st)
        neg = canon[3] != 'eq'
        eqf = Obj('fnitem', '<%s as PartialEq>::eq' % it_)

        def both_some(s_):
            pa, pb = alloc(ex, s_, payload(ex, s_, a, 1, 0, it_), 'eqa'), alloc(ex, s_, payload(ex, s_, b, 1, 0, it_), 'eqb')

            def c2(ex2, s2, r):
                bb = ex2.as_bool(r)
                return finish(ex2, s2, Sc(z3.Not(bb) if neg else bb, 'bool'))
            call_fnlike(ex, s_, eqf, [pa, pb], c2)
            return NOTHING
        raise Fork([(z3.And(da == 1, db == 1), both_some),
                    (z3.And(da == 0, db == 0), lambda s_: Sc(z3.BoolVal(not neg), 'bool')),
                    (da != db, lambda s_: Sc(z3.BoolVal(neg), 'bool'))])
    e = struct_eq(ex, st, a, b, ty)
    return Sc(e if canon[3] == 'eq' else z3.Not(e), 'bool')


def as_str(ex, st, v):
    """string scalar for v (following references; lazily typed unknowns become string symbols)"""
    v = deref_all(ex, st, v)
    if isinstance(v, Sc):
        return v
    if isinstance(v, Tree) and v.origin is not None and not v.f and v.ty in (None, '?'):
        return Sc(z3.String(v.origin), 'str')
    raise Inconclusive('not a string: %r' % (v,))


@pattern(r'^<(String|str|&str|&String|std::string::String) as PartialEq(<.*>)?>::(eq|ne)$')
def m_str_eq(ex, st, args, dty, canon):
    a = as_str(ex, st, args[0])
    b = as_str(ex, st, args[1])
    e = a.t == b.t
    return Sc(e if canon[3] == 'eq' else z3.Not(e), 'bool')


# ------------------------------------------------------------------ http accessors

@pattern(r'^(http::)?(response::)?Response::<.*>::into_parts$')
def m_into_parts(ex, st, args, dty, canon):
    r = args[0]
    if isinstance(r, Tree) and r.origin is not None:
        return Tree({0: Tree({}, r.origin + '.parts', 'http::response::Parts'),
                     1: ex.mk_sym(inner_ty('X<%s>' % (type_args(dty)[-1] if type_args(dty) else 'Vec<u8>')) or 'Vec<u8>', r.origin + '.body')},
                    None, dty)
    raise Inconclusive('into_parts of %r' % (r,))


@pattern(r'^(http::)?StatusCode::is_success$')
def m_is_success(ex, st, args, dty, canon):
    s = deref_all(ex, st, args[0])
    code = ex.child(st, s, 0, 'u16')
    return Sc(z3.And(code.t >= 200, code.t < 300), 'bool')


@pattern(r'^<(http::)?(status::)?StatusCode as PartialEq>::(eq|ne)$')
def m_status_eq(ex, st, args, dty, canon):
    a, b = deref_all(ex, st, args[0]), deref_all(ex, st, args[1])
    e = ex.child(st, a, 0, 'u16').t == ex.child(st, b, 0, 'u16').t
    return Sc(e if canon[3] == 'eq' else z3.Not(e), 'bool')


@pattern(r'^(http::)?(status::)?StatusCode::(is_informational|is_redirection|is_client_error|is_server_error|as_u16)$')
def m_status_class(ex, st, args, dty, canon):
    s_ = deref_all(ex, st, args[0])
    code = ex.child(st, s_, 0, 'u16').t
    op = canon[3]
    if op == 'as_u16':
        return Sc(code, 'u16')
    lo = {'is_informational': 100, 'is_redirection': 300, 'is_client_error': 400, 'is_server_error': 500}[op]
    return Sc(z3.And(code >= lo, code < lo + 100), 'bool')


@pattern(r'^(http::)?(header::)?HeaderMap::get::<.*>$|^HeaderMap::get$')
def m_header_get(ex, st, args, dty, canon):
    hm = args[0]
    name = args[1]
    nm = 'ev%d' % len(st.trace)
    st.trace.append(Event('model', 'HeaderMap::get', (hm, name), nm))
    return ex.mk_sym(dty, nm)


# ------------------------------------------------------------------ RequestBuilder as an operation log
# The builder's own logic (entry merge, headers, serialisation) is checked separately (C15/C03); in the
# state-machine exploration it is an abstract value that records the operations applied to it.

def _builder_ops(ex, st, b):
    b = deref_all(ex, st, b)
    if isinstance(b, Obj) and b.kind == 'builder':
        return b.data
    if isinstance(b, Tree) and b.origin is not None:
        return (('opaque', b.origin),)
    raise Inconclusive('not a builder: %r' % (b,))


@pattern(r'^RequestBuilder::<.*>::new$|^RequestBuilder::new$')
def m_rb_new(ex, st, args, dty, canon):
    return Obj('builder', (('new', ex.snapshot(st, args[0]), ex.snapshot(st, args[1])),))


def _rb_op(name):
    def f(ex, st, args, dty, canon):
        ops = _builder_ops(ex, st, args[0])
        return Obj('builder', ops + ((name,) + tuple(ex.snapshot(st, a) for a in args[1:]),))
    return f


for _n in ('add_update_check', 'add_ping', 'add_event', 'session_id', 'request_id'):
    PATTERNS.append((re.compile(r'^RequestBuilder::<.*>::%s$|^RequestBuilder::%s$' % (_n, _n)), _rb_op(_n)))


@pattern(r'^RequestBuilder::<.*>::build::<.*>$|^RequestBuilder::build$')
def m_rb_build(ex, st, args, dty, canon):
    ops = _builder_ops(ex, st, args[0])
    handler = args[1]
    nm = 'ev%d' % len(st.trace)
    st.trace.append(Event('model', 'RequestBuilder::build', (ops, handler), nm))
    hd = ex.discr_of(st, handler).t
    res = Tree({}, nm, dty)
    # contract (checked on RequestBuilder::build itself): metadata is Some exactly when a handler was given
    okp = ex.child(st, ex.child(st, res, ('v', 0), None), 0, None)
    md = ex.child(st, okp, 1, 'std::option::Option<cup_ecdsa::RequestMetadata>')
    mdd = ex.discr_of(st, md).t
    rd = ex.discr_of(st, res).t
    st.pc.append(z3.Implies(rd == 0, mdd == hd))
    return res


# ------------------------------------------------------------------ Context::persist as one event
# (its body is explored on its own from an arbitrary context by the C07/C08 checks)

def m_persist_cut(ex, st, args, dty, canon):
    ctx = ex.snapshot(st, args[0])
    st.trace.append(Event('model', 'Context::persist', (ctx, args[1])))
    return fut_ready_unit()


def fut_ready_unit():
    return fut('ready', UNIT)


def cut_persist(ex):
    ex.model_patterns.insert(0, (re.compile(r'^(update_check::)?Context::persist::<.*>$'), m_persist_cut))


# ------------------------------------------------------------------ containers with concrete shape
# A Vec / slice is a Tree whose integer keys 0..n-1 are the elements (addressable by pointer paths).
# Explicit vectors carry meta=('vec', n); symbolic ones (origin set) take their length from
# ex.cfg['shape'](origin, type) -- the stated bound on collection sizes.

def vec_len(ex, st, v):
    if isinstance(v, Tree):
        if v.meta and isinstance(v.meta, tuple) and v.meta[0] == 'vec':
            return v.meta[1]
        if v.origin is not None:
            shape = ex.cfg.get('shape')
            n = None
            if shape:
                try:
                    n = shape(v.origin, v.ty or '', st, ex)
                except TypeError:
                    n = shape(v.origin, v.ty or '')
            if n is None:
                raise Inconclusive('no shape configured for collection %s : %s' % (v.origin, v.ty))
            return n
        if all(isinstance(k, int) for k in v.f):
            return len(v.f)
    raise Inconclusive('length of non-vector %r' % (v,))


def mk_vec(items, ty='Vec'):
    return Tree(dict(enumerate(items)), None, ty, meta=('vec', len(items)))


def vec_items(ex, st, v, elem_ty=None):
    n = vec_len(ex, st, v)
    return [ex.child(st, v, i, elem_ty) for i in range(n)]


def elem_ty_of(ty):
    a = type_args(ty or '')
    return a[0] if a else None


def as_ptr(ex, st, v, what):
    if isinstance(v, Ptr):
        return v
    if isinstance(v, Tree) and v.origin is not None and not v.f:
        return Ptr(v.origin + '*', ())
    raise Inconclusive('%s: expected a reference, got %r' % (what, v))


@pattern(r'^Vec::<.*>::new$|^Vec::new$|^<Vec<.*> as Default>::default$')
def m_vec_new(ex, st, args, dty, canon):
    return mk_vec([], dty)


@pattern(r'^Vec::<.*>::push$')
def m_vec_push(ex, st, args, dty, canon):
    p = as_ptr(ex, st, args[0], 'Vec::push')
    v = deref(ex, st, p)
    items = vec_items(ex, st, v)
    ex.store(st, p.cell, [(k, None) for k in p.path], mk_vec(items + [args[1]], v.ty))
    return UNIT


@pattern(r'^Vec::<.*>::(is_empty|len)$|^<impl \[.*\]>::(is_empty|len)$')
def m_vec_is_empty(ex, st, args, dty, canon):
    v = deref_all(ex, st, args[0])
    n = vec_len(ex, st, v)
    if canon[3] == 'len':
        return Sc(I(n), 'usize')
    return Sc(z3.BoolVal(n == 0), 'bool')


@pattern(r'^Vec::<.*>::remove$')
def m_vec_remove(ex, st, args, dty, canon):
    p = as_ptr(ex, st, args[0], 'Vec::remove')
    v = deref(ex, st, p)
    items = vec_items(ex, st, v)
    idx = z3.simplify(args[1].t)
    if not z3.is_int_value(idx):
        raise Inconclusive('Vec::remove with symbolic index')
    i = idx.as_long()
    if i >= len(items):
        st.status = 'panic'
        st.info = 'Vec::remove index %d out of bounds (len %d)' % (i, len(items))
        return NOTHING
    it = items[i]
    ex.store(st, p.cell, [(k, None) for k in p.path], mk_vec(items[:i] + items[i + 1:], v.ty))
    return it


@pattern(r'^<Vec<.*> as (Deref|DerefMut)>::(deref|deref_mut)$|^Vec::<.*>::(as_slice|as_mut_slice)$')
def m_vec_deref(ex, st, args, dty, canon):
    return as_ptr(ex, st, args[0], 'Vec deref')


@pattern(r'^<(std::option::)?Option<.*> as Default>::default$')
def m_option_default(ex, st, args, dty, canon):
    return none()


# iterators ---------------------------------------------------------------

def it(kind, *data):
    return Obj('iter', (kind,) + tuple(data))


def alloc(ex, st, v, tag='tmp'):
    st.nfid += 1
    cell = (st.nfid, tag)
    st.cells[cell] = v
    return Ptr(cell, ())


@pattern(r'^<impl \[.*\]>::(iter|iter_mut)$|^<&(mut )?Vec<.*> as IntoIterator>::into_iter$|^<&(mut )?\[.*\] as IntoIterator>::into_iter$|^<\[.*\] as IntoIterator>::into_iter$')
def m_iter_ref(ex, st, args, dty, canon):
    p = as_ptr(ex, st, args[0], 'iter')
    v = deref(ex, st, p)
    if isinstance(v, Ptr):          # &&[T]
        p = v
        v = deref(ex, st, p)
    n = vec_len(ex, st, v)
    return it('ref', p, 0, n)


@pattern(r'^<Vec<.*> as IntoIterator>::into_iter$')
def m_iter_val(ex, st, args, dty, canon):
    v = args[0]
    return it('val', tuple(vec_items(ex, st, v, elem_ty_of(v.ty if isinstance(v, Tree) else None))), 0)


@pattern(r'^<.* as IntoIterator>::into_iter$')
def m_into_iter_identity(ex, st, args, dty, canon):
    v = args[0]
    if isinstance(v, Obj) and v.kind == 'iter':
        return v
    if isinstance(v, Ptr):
        tv = deref(ex, st, v)
        if isinstance(tv, Tree):
            return it('ref', v, 0, vec_len(ex, st, tv))
    if isinstance(v, Tree):
        return it('val', tuple(vec_items(ex, st, v)), 0)
    raise Inconclusive('into_iter of %r' % (v,))


for _ad in ('map', 'filter', 'filter_map'):
    def _mk(ad):
        def f(ex, st, args, dty, canon):
            return it(ad, args[0], args[1])
        return f
    PATTERNS.append((re.compile(r'^<.* as Iterator>::%s(::<.*>)?$' % _ad), _mk(_ad)))


@pattern(r'^<.* as Iterator>::zip(::<.*>)?$')
def m_iter_zip(ex, st, args, dty, canon):
    b = args[1]
    if not (isinstance(b, Obj) and b.kind == 'iter'):
        b = m_into_iter_identity(ex, st, [b], None, canon)
    return it('zip', args[0], b)


@pattern(r'^<.* as Iterator>::(cloned|copied)$')
def m_iter_cloned(ex, st, args, dty, canon):
    return it('cloned', args[0])


@pattern(r'^(std::|core::)?iter::once::<.*>$|^once::<.*>$')
def m_iter_once(ex, st, args, dty, canon):
    return it('val', (args[0],), 0)


@pattern(r'^<.* as Iterator>::chain(::<.*>)?$')
def m_iter_chain(ex, st, args, dty, canon):
    return it('chain', _iter_arg(ex, st, args[0]), _iter_arg(ex, st, args[1]))


@pattern(r'^<.* as Iterator>::enumerate$')
def m_iter_enumerate(ex, st, args, dty, canon):
    return it('enumerate', args[0], 0)


def iter_next(ex, st, itv, cont):
    """advance iterator value itv; cont(ex, st, new_itv, item_or_None).  Returns PUSHED/NOTHING-ish."""
    if not (isinstance(itv, Obj) and itv.kind == 'iter'):
        raise Inconclusive('next on non-iterator %r' % (itv,))
    k = itv.data[0]
    if k == 'ref':
        _, p, pos, n = itv.data
        if pos >= n:
            return cont(ex, st, itv, None)
        return cont(ex, st, it('ref', p, pos + 1, n), Ptr(p.cell, p.path + (pos,)))
    if k == 'val':
        _, items, pos = itv.data
        if pos >= len(items):
            return cont(ex, st, itv, None)
        return cont(ex, st, it('val', items, pos + 1), items[pos])
    if k == 'cloned':
        def c1(ex2, s2, ni, item):
            return cont(ex2, s2, it('cloned', ni), None if item is None else deref(ex2, s2, item))
        return iter_next(ex, st, itv.data[1], c1)
    if k == 'chain':
        a, b = itv.data[1], itv.data[2]
        if a is None:
            def cb(ex2, s2, nb, item):
                return cont(ex2, s2, it('chain', None, nb), item)
            return iter_next(ex, st, b, cb)

        def ca(ex2, s2, na, item):
            if item is None:
                return iter_next(ex2, s2, it('chain', None, b), cont)
            return cont(ex2, s2, it('chain', na, b), item)
        return iter_next(ex, st, a, ca)
    if k == 'enumerate':
        idx = itv.data[2]

        def c1(ex2, s2, ni, item):
            if item is None:
                return cont(ex2, s2, it('enumerate', ni, idx), None)
            return cont(ex2, s2, it('enumerate', ni, idx + 1), Tree({0: Sc(I(idx), 'usize'), 1: item}, None, None))
        return iter_next(ex, st, itv.data[1], c1)
    if k == 'zip':
        def c1(ex2, s2, na, ia):
            if ia is None:
                return cont(ex2, s2, it('zip', na, itv.data[2]), None)

            def c2(ex3, s3, nb, ib):
                if ib is None:
                    return cont(ex3, s3, it('zip', na, nb), None)
                return cont(ex3, s3, it('zip', na, nb), Tree({0: ia, 1: ib}, None, None))
            return iter_next(ex2, s2, itv.data[2], c2)
        return iter_next(ex, st, itv.data[1], c1)
    if k == 'map':
        clo = itv.data[2]

        def c1(ex2, s2, ni, item):
            if item is None:
                return cont(ex2, s2, it('map', ni, clo), None)

            def c2(ex3, s3, r):
                return cont(ex3, s3, it('map', ni, clo), r)
            return call_fnlike(ex2, s2, clo_ref(ex2, s2, clo), [item], c2)
        return iter_next(ex, st, itv.data[1], c1)
    if k in ('filter', 'filter_map'):
        clo = itv.data[2]

        def step(ex2, s2, cur):
            def c1(ex3, s3, ni, item):
                if item is None:
                    return cont(ex3, s3, it(k, ni, clo), None)
                if k == 'filter':
                    ip = alloc(ex3, s3, item, 'fitem')

                    def c2(ex4, s4, r):
                        b = z3.simplify(ex4.as_bool(r))
                        if z3.is_true(b):
                            return cont(ex4, s4, it(k, ni, clo), item)
                        if z3.is_false(b):
                            return step(ex4, s4, ni)
                        raise Fork([(b, lambda s: (cont(ex4, s, it(k, ni, clo), item), NOTHING)[1]),
                                    (z3.Not(b), lambda s: (step(ex4, s, ni), NOTHING)[1])])
                    return call_fnlike(ex3, s3, clo_ref(ex3, s3, clo), [ip], c2)

                def c2(ex4, s4, r):
                    cases = enum_cases(ex4, s4, r, 2)

                    def on(s, i):
                        if i == 1:
                            return cont(ex4, s, it(k, ni, clo), payload(ex4, s, r, 1, 0))
                        return step(ex4, s, ni)
                    if len(cases) == 1 and cases[0][0] is None:
                        return on(s4, cases[0][1])
                    raise Fork([(c, (lambda i: (lambda s: (on(s, i), NOTHING)[1]))(i)) for c, i in cases])
                return call_fnlike(ex3, s3, clo_ref(ex3, s3, clo), [item], c2)
            return iter_next(ex2, s2, cur, c1)
        return step(ex, st, itv.data[1])
    raise Inconclusive('iterator kind %s' % k)


def clo_ref(ex, st, clo):
    """closures stored by value inside iterator adaptors are called through &mut: give them a cell"""
    if isinstance(clo, Ptr) or (isinstance(clo, Obj) and clo.kind == 'fnitem'):
        return clo
    fn, tv = ex.closure_fn_for(st, clo)
    if fn is not None and fn.args[0][1].strip().startswith('&'):
        return alloc(ex, st, clo, 'clo')
    return clo


def _call_site(ex, st):
    caller = st.frames[-1]
    term = caller.fn.blocks[caller.bb].term
    dcell, dpath, dty = ex.resolve(st, caller, term.place)

    def finish(ex2, s2, value):
        ex2.store(s2, dcell, dpath, value)
        c2 = s2.frames[-1]
        c2.bb, c2.idx = term.target, 0
        return NOTHING
    return finish


@pattern(r'^<.* as Iterator>::next$')
def m_iter_next(ex, st, args, dty, canon):
    p = as_ptr(ex, st, args[0], 'Iterator::next')
    itv = deref(ex, st, p)
    finish = _call_site(ex, st)

    def cont(ex2, s2, ni, item):
        ex2.store(s2, p.cell, [(k, None) for k in p.path], ni)
        return finish(ex2, s2, none() if item is None else some(item))
    iter_next(ex, st, itv, cont)
    return NOTHING


def drain(ex, st, itv, on_item, on_end, acc, back=None):
    """fold over the iterator: on_item(ex, st, acc, item, k) must call k(ex, st, new_acc, stop: bool).
    `back`: pointer the iterator was borrowed through (`&mut I`): the advanced iterator is written back, so
    that what a short-circuiting consumer (find / any / all / position) left unconsumed -- and nothing else --
    is still there for the next user of the same iterator."""
    def finish_(ex5, s5, ni, a):
        if back is not None:
            ex5.store(s5, back.cell, [(k_, None) for k_ in back.path], ni)
        return on_end(ex5, s5, a)

    def step(ex2, s2, cur, a):
        def c1(ex3, s3, ni, item):
            if item is None:
                return finish_(ex3, s3, ni, a)

            def k(ex4, s4, na, stop=False):
                if stop:
                    return finish_(ex4, s4, ni, na)
                return step(ex4, s4, ni, na)
            return on_item(ex3, s3, a, item, k)
        return iter_next(ex2, s2, cur, c1)
    return step(ex, st, itv, acc)


def _iter_is_shared(ex, st, p):
    """an iterator reached through a pointer into a named local may be used again after the call (a temporary
    adaptor chain `x.iter().any(..)` cannot): only then is exact short-circuiting observable"""
    cell = p.cell
    if not (isinstance(cell, tuple) and len(cell) == 2 and isinstance(cell[1], int)):
        return True
    for fr in st.frames:
        if fr.fid == cell[0]:
            return cell[1] in fr.fn.named
    return True


def _iter_arg(ex, st, v):
    if isinstance(v, Obj) and v.kind == 'iter':
        return v
    if isinstance(v, Ptr):
        tv = deref(ex, st, v)
        if isinstance(tv, Obj) and tv.kind == 'iter':
            return tv
    return m_into_iter_identity(ex, st, [v], None, None)


@pattern(r'^<.* as Iterator>::collect::<.*>$|^<.* as Iterator>::collect$')
def m_iter_collect(ex, st, args, dty, canon):
    finish = _call_site(ex, st)
    is_map = type_head(dty or '') in ('HashMap', 'BTreeMap')

    def on_item(ex2, s2, acc, item, k):
        return k(ex2, s2, acc + [item])

    def on_end(ex2, s2, acc):
        if is_map:
            return finish(ex2, s2, Tree(dict(enumerate(acc)), None, dty, meta=('map', len(acc))))
        return finish(ex2, s2, mk_vec(acc, dty))
    drain(ex, st, _iter_arg(ex, st, args[0]), on_item, on_end, [])
    return NOTHING


@pattern(r'^<.* as Iterator>::(all|any)(::<.*>)?$')
def m_iter_all(ex, st, args, dty, canon):
    finish = _call_site(ex, st)
    want_all = canon[3].startswith('all')
    p = args[0]
    itv = deref(ex, st, p) if isinstance(p, Ptr) else p
    clo = args[1]

    borrowed = isinstance(p, Ptr) and isinstance(itv, Obj) and itv.kind == 'iter' and _iter_is_shared(ex, st, p)

    def on_item(ex2, s2, acc, item, k):
        def c2(ex3, s3, r):
            b = ex3.as_bool(r)
            if borrowed:
                # the iterator lives on after this call: short-circuit exactly as std does
                bs_ = z3.simplify(b)
                stop_on = z3.is_false(bs_) if want_all else z3.is_true(bs_)
                go_on = z3.is_true(bs_) if want_all else z3.is_false(bs_)
                if stop_on:
                    return k(ex3, s3, z3.BoolVal(not want_all), True)
                if go_on:
                    return k(ex3, s3, acc)
                cont_c, stop_c = (b, z3.Not(b)) if want_all else (z3.Not(b), b)
                raise Fork([(stop_c, lambda s: (k(ex3, s, z3.BoolVal(not want_all), True), NOTHING)[1]),
                            (cont_c, lambda s: (k(ex3, s, acc), NOTHING)[1])])
            return k(ex3, s3, z3.And(acc, b) if want_all else z3.Or(acc, b))
        return call_fnlike(ex2, s2, clo_ref(ex2, s2, clo), [item], c2)

    def on_end(ex2, s2, acc):
        return finish(ex2, s2, Sc(z3.simplify(acc), 'bool'))
    drain(ex, st, itv, on_item, on_end, z3.BoolVal(want_all), back=p if borrowed else None)
    return NOTHING


@pattern(r'^<.* as Iterator>::find(::<.*>)?$')
def m_iter_find(ex, st, args, dty, canon):
    finish = _call_site(ex, st)
    p = args[0]
    itv = deref(ex, st, p) if isinstance(p, Ptr) else p
    clo = args[1]

    def on_item(ex2, s2, acc, item, k):
        ip = alloc(ex2, s2, item, 'fitem')

        def c2(ex3, s3, r):
            b = z3.simplify(ex3.as_bool(r))
            if z3.is_true(b):
                return k(ex3, s3, item, True)
            if z3.is_false(b):
                return k(ex3, s3, None)
            raise Fork([(b, lambda s: (k(ex3, s, item, True), NOTHING)[1]),
                        (z3.Not(b), lambda s: (k(ex3, s, None), NOTHING)[1])])
        return call_fnlike(ex2, s2, clo_ref(ex2, s2, clo), [ip], c2)

    def on_end(ex2, s2, acc):
        return finish(ex2, s2, none() if acc is None else some(acc))
    drain(ex, st, itv, on_item, on_end, None, back=p if isinstance(p, Ptr) else None)
    return NOTHING


@pattern(r'^<.* as Iterator>::position(::<.*>)?$')
def m_iter_position(ex, st, args, dty, canon):
    finish = _call_site(ex, st)
    p = args[0]
    itv = deref(ex, st, p) if isinstance(p, Ptr) else p
    clo = args[1]

    def on_item(ex2, s2, acc, item, k):
        idx, found = acc

        def c2(ex3, s3, r):
            b = z3.simplify(ex3.as_bool(r))
            if z3.is_true(b):
                return k(ex3, s3, (idx, True), True)
            if z3.is_false(b):
                return k(ex3, s3, (idx + 1, False))
            raise Fork([(b, lambda s: (k(ex3, s, (idx, True), True), NOTHING)[1]),
                        (z3.Not(b), lambda s: (k(ex3, s, (idx + 1, False)), NOTHING)[1])])
        return call_fnlike(ex2, s2, clo_ref(ex2, s2, clo), [item], c2)

    def on_end(ex2, s2, acc):
        idx, found = acc
        return finish(ex2, s2, some(Sc(I(idx), 'usize')) if found else none())
    drain(ex, st, itv, on_item, on_end, (0, False), back=p if isinstance(p, Ptr) else None)
    return NOTHING


@pattern(r'^<(std::vec::)?Vec<.*> as (std::ops::|core::ops::)?(Index|IndexMut)<usize>>::(index|index_mut)$|^<\[.*\] as (std::ops::|core::ops::)?(Index|IndexMut)<usize>>::(index|index_mut)$')
def m_vec_index(ex, st, args, dty, canon):
    p = as_ptr(ex, st, args[0], 'Vec index')
    v = deref(ex, st, p)
    n = vec_len(ex, st, v)
    idx = z3.simplify(args[1].t)

    def oob(s_):
        s_.status = 'panic'
        s_.info = 'index out of bounds'
        return NOTHING
    if z3.is_int_value(idx):
        i = idx.as_long()
        if i >= n:
            return oob(st)
        return Ptr(p.cell, p.path + (i,))
    alts = [(args[1].t == i, (lambda i: (lambda s_: Ptr(p.cell, p.path + (i,))))(i)) for i in range(n)]
    alts.append((args[1].t >= n, oob))
    raise Fork(alts)


@pattern(r'^<.* as Iterator>::fold(::<.*>)?$')
def m_iter_fold(ex, st, args, dty, canon):
    finish = _call_site(ex, st)
    itv = _iter_arg(ex, st, args[0])
    clo = args[2]

    def on_item(ex2, s2, acc, item, k):
        def c2(ex3, s3, r):
            return k(ex3, s3, r)
        return call_fnlike(ex2, s2, clo_ref(ex2, s2, clo), [acc, item], c2)

    def on_end(ex2, s2, acc):
        return finish(ex2, s2, acc)
    drain(ex, st, itv, on_item, on_end, args[1])
    return NOTHING


# maps (association lists) ------------------------------------------------

@pattern(r'^<&?(std::collections::)?(HashMap|BTreeMap)(<.*>)? as PartialEq>::(eq|ne)$')
def m_map_eq(ex, st, args, dty, canon):
    """two maps: the same value -> equal; two distinct arbitrary (never inspected) maps -> a free input bit,
    named by the pair so that it is the same answer every time on a path"""
    a = deref_all(ex, st, args[0])
    b = deref_all(ex, st, args[1])
    if ex.veq(a, b):
        e = z3.BoolVal(True)
    elif isinstance(a, Tree) and isinstance(b, Tree) and a.origin and b.origin and not a.f and not b.f:
        x, y = sorted((a.origin, b.origin))
        e = z3.Bool('mapeq!%s!%s' % (x, y))
    else:
        raise Inconclusive('map equality on %r / %r' % (a, b))
    return Sc(e if canon[3] == 'eq' else z3.Not(e), 'bool')


@pattern(r'^HashMap::<.*>::get::<.*>$|^HashMap::<.*>::get$')
def m_map_get(ex, st, args, dty, canon):
    mp = as_ptr(ex, st, args[0], 'HashMap::get')
    mv = deref(ex, st, mp)
    if not (isinstance(mv, Tree) and mv.meta and mv.meta[0] == 'map'):
        raise Inconclusive('HashMap::get on %r' % (mv,))
    n = mv.meta[1]
    key = as_str(ex, st, args[1])
    keys = []
    for i in range(n):
        kv = as_str(ex, st, ex.child(st, ex.child(st, mv, i, None), 0, None))
        keys.append(kv.t)
    alts = []
    # insertion overwrites: the last entry with an equal key is the live one
    for i in reversed(range(n)):
        cond = z3.And(key.t == keys[i], *[key.t != keys[j] for j in range(i + 1, n)])
        alts.append((cond, (lambda i: (lambda s: some(Ptr(mp.cell, mp.path + (i, 1)))))(i)))
    alts.append((z3.And(*[key.t != kk for kk in keys]) if keys else None, lambda s: none()))
    raise Fork(alts)


def _map_key_term(ex, st, v):
    v = deref_all(ex, st, v)
    return v.t if isinstance(v, Sc) else as_str(ex, st, v).t


@pattern(r'^HashMap::<.*>::(values|keys|iter)$')
def m_map_iterate(ex, st, args, dty, canon):
    """iteration over a map built by insertion: the live entries (the last one of each key) in an arbitrary
    order -- every order is explored (maps of up to 3 entries)"""
    import itertools
    mp = as_ptr(ex, st, args[0], 'HashMap iteration')
    mv = deref(ex, st, mp)
    if not (isinstance(mv, Tree) and mv.meta and mv.meta[0] == 'map'):
        raise Inconclusive('HashMap::%s on %r' % (canon[3], mv))
    n = mv.meta[1]
    if n > 3:
        raise Inconclusive('HashMap::%s on a map of %d entries (bound 3)' % (canon[3], n))
    keys = [_map_key_term(ex, st, ex.child(st, ex.child(st, mv, i, None), 0, None)) for i in range(n)]
    what = canon[3]

    def item(i):
        if what == 'values':
            return Ptr(mp.cell, mp.path + (i, 1))
        if what == 'keys':
            return Ptr(mp.cell, mp.path + (i, 0))
        return Tree({0: Ptr(mp.cell, mp.path + (i, 0)), 1: Ptr(mp.cell, mp.path + (i, 1))}, None, None)
    if n == 0:
        return it('val', (), 0)
    alts = []
    for r in range(n):
        for rest in itertools.combinations(range(n - 1), r):
            live = set(rest) | {n - 1}
            cond = z3.And([z3.BoolVal(True)] + [(z3.And([keys[i] != keys[j] for j in range(i + 1, n)]) if i in live
                                                 else z3.Or([keys[i] == keys[j] for j in range(i + 1, n)])) for i in range(n - 1)])
            for perm in itertools.permutations(sorted(live)):
                alts.append((cond, (lambda perm: (lambda s_: it('val', tuple(item(i) for i in perm), 0)))(perm)))
    raise Fork(alts)


@pattern(r'^(http::)?(response::)?Response::<.*>::status$')
def m_response_status(ex, st, args, dty, canon):
    r = deref_all(ex, st, args[0])
    if isinstance(r, Tree) and r.origin is not None:
        return ex.child(st, Tree({}, r.origin + '.parts', 'http::response::Parts'), 0, 'http::StatusCode')
    raise Inconclusive('Response::status of %r' % (r,))


# ------------------------------------------------------------------ further abstraction boundaries

@pattern(r'^(protocol::request::)?GUID::new$')
def m_guid_new(ex, st, args, dty, canon):
    nm = 'ev%d' % len(st.trace)
    st.trace.append(Event('env', 'GUID::new', (), nm))
    return ex.mk_sym(dty or 'GUID', nm)


@pattern(r'^(protocol::response::)?parse_json_response$')
def m_parse_json(ex, st, args, dty, canon):
    return env_event(ex, st, 'parse_json_response', (ex.snapshot(st, args[0]),), dty)


def env_event(ex, st, name, args, dty):
    nm = 'ev%d' % len(st.trace)
    st.trace.append(Event('env', name, tuple(args), nm, extra=dty))
    v = ex.mk_sym(dty, nm)
    hook = ex.cfg.get('env_assume')
    if hook is not None:
        hook(ex, st, name, v, dty)
    return v


def cut_appset(ex):
    """AppSetExt provided methods as events (their bodies are checked by C09's own harnesses)"""
    def mk(name, fut_result):
        def f(ex2, st, args, dty, canon):
            nm = 'ev%d' % len(st.trace)
            st.trace.append(Event('env', 'AppSetExt::' + name, tuple(ex2.snapshot(st, a) for a in args), nm))
            if fut_result:
                return fut('ready', UNIT)
            return ex2.mk_sym(dty, nm)
        return f
    for name, isfut in (('update_from_omaha', False), ('persist', True), ('load', True), ('all_valid', False)):
        ex.model_patterns.insert(0, (re.compile(r'^<.* as AppSetExt>::%s(::<.*>)?$' % name), mk(name, isfut)))


# install progress channel: bounded number of progress notifications (cfg 'progress_events', default 0)

@pattern(r'mpsc::channel::<.*>$')
def m_mpsc_channel(ex, st, args, dty, canon):
    nm = st.fresh('chan')
    return Tree({0: Obj('sender', nm), 1: Obj('receiver', (nm, 0))}, None, dty)


@pattern(r'^<.*mpsc::Receiver<.*> as StreamExt>::next$')
def m_receiver_next(ex, st, args, dty, canon):
    p = as_ptr(ex, st, args[0], 'Receiver::next')
    r = deref(ex, st, p)
    if not (isinstance(r, Obj) and r.kind == 'receiver'):
        raise Inconclusive('StreamExt::next on %r' % (r,))
    nm, k = r.data
    nmax = ex.cfg.get('progress_events', 0)
    if k >= nmax:
        return fut('ready', none())
    ex.store(st, p.cell, [(kk, None) for kk in p.path], Obj('receiver', (nm, k + 1)))
    return fut('ready', some(Tree({}, '%s.progress%d' % (nm, k), 'InstallProgress')))


@pattern(r'^Box::<.*>::new$|^std::boxed::Box::<.*>::new$')
def m_box_new(ex, st, args, dty, canon):
    return alloc(ex, st, args[0], 'box')


# ------------------------------------------------------------------ assume/guarantee cuts of the state machine
# Each cut replaces an async method of StateMachine by an event plus a summary of its effect on the
# in-memory context.  The summary is exactly the contract that the callee's own check (C02/C07 for
# do_omaha_request_and_update_context, C14/C08 for report_check_interval) establishes on the callee's MIR.

def sm_field_path(ex, names):
    """typed path for self.<names...> using the crate's struct declarations"""
    path = []
    cur = 'StateMachine'
    table = {'context': 'update_check::Context', 'state': 'common::ProtocolState', 'schedule': 'common::UpdateCheckSchedule'}
    for n in names:
        idx = ex.src.field_index(cur if '::' in cur else cur, n)
        if idx is None:
            raise Inconclusive('field %s of %s not found in source' % (n, cur))
        path.append(idx)
        cur = table.get(n, n)
    return path


def ite_val(ex, st, cond, a, b, ty):
    """value equal to a if cond else b, for Option<Duration>-shaped data"""
    if isinstance(a, Sc) and isinstance(b, Sc):
        return Sc(z3.If(cond, a.t, b.t), a.ty)
    h = type_head(ty or '')
    if h == 'Option':
        it_ = inner_ty(ty)
        da = ex.discr_of(st, a, ty).t
        db = ex.discr_of(st, b, ty).t
        pa = payload(ex, st, a, 1, 0, it_)
        pb = payload(ex, st, b, 1, 0, it_)
        return models.sym_enum(z3.If(cond, da, db), {1: [ite_val(ex, st, cond, pa, pb, it_)], 0: []}, ty)
    if h == 'Duration':
        sa, na = models.dur_parts(ex, st, a)
        sb, nb = models.dur_parts(ex, st, b)
        return models.mk_dur(z3.If(cond, sa, sb), z3.If(cond, na, nb))
    raise Inconclusive('ite_val on type %s' % ty)


SPI_TY = 'std::option::Option<std::time::Duration>'


def m_do_omaha_cut(ex, st, args, dty, canon):
    sm = as_ptr(ex, st, args[0], 'do_omaha self')
    ops = _builder_ops(ex, st, args[1])
    nm = 'ev%d' % len(st.trace)
    rty = 'std::result::Result<(http::response::Parts, std::vec::Vec<u8>, std::option::Option<cup_ecdsa::RequestMetadata>, std::option::Option<ecdsa::der::Signature<p256::NistP256>>), state_machine::OmahaRequestError>'
    res = Tree({}, nm, rty)
    st.trace.append(Event('env', 'do_omaha_request', (ops,), nm))
    hook = ex.cfg.get('env_assume')
    if hook is not None:
        hook(ex, st, 'do_omaha_request', res, rty)
    rd = ex.discr_of(st, res).t
    e = payload(ex, st, res, 1, 0, 'state_machine::OmahaRequestError')
    ed = ex.discr_of(st, e).t
    status_idx = ex.src.variant_index('OmahaRequestError', 'HttpStatus')
    noresp = z3.And(rd == 1, ed != status_idx)
    path = sm_field_path(ex, ['context', 'state', 'server_dictated_poll_interval'])
    tp = [(k, None) for k in sm.path] + [(k, None) for k in path[:-1]] + [(path[-1], SPI_TY)]
    old = ex.load(st, sm.cell, tp)
    new = Tree({}, nm + '.spi', SPI_TY)
    after = ite_val(ex, st, noresp, old, new, SPI_TY)
    ex.store(st, sm.cell, tp, after)
    st.extra[('spi_after_exchange', nm)] = after      # for monitors: what the exchange left in the context
    # contract: with a handler configured and metadata present a response is returned only if verified;
    # nothing else of the context changes.
    return fut('ready', res)


def m_report_check_interval_cut(ex, st, args, dty, canon):
    sm = as_ptr(ex, st, args[0], 'report_check_interval self')
    nm = 'ev%d' % len(st.trace)
    st.trace.append(Event('env', 'report_check_interval', (args[1],), nm))
    path = sm_field_path(ex, ['context', 'schedule', 'last_update_check_time'])
    ty = 'std::option::Option<time::PartialComplexTime>'
    tp = [(k, None) for k in sm.path] + [(k, None) for k in path[:-1]] + [(path[-1], ty)]
    ex.store(st, sm.cell, tp, Tree({}, nm + '.luct', ty))
    return fut('ready', UNIT)


def cut_do_omaha(ex):
    ex.model_patterns.insert(0, (re.compile(r'^StateMachine::<.*>::do_omaha_request_and_update_context$'), m_do_omaha_cut))


def cut_report_check_interval(ex):
    ex.model_patterns.insert(0, (re.compile(r'^StateMachine::<.*>::report_check_interval$'), m_report_check_interval_cut))


# ------------------------------------------------------------------ bounded byte strings (header values)
# A HeaderValue is `len` (0..=N) and N byte variables; N = ex.cfg['max_header_bytes'] (stated bound).

def hv_bytes(ex, st, hv):
    hv = deref_all(ex, st, hv)
    if isinstance(hv, Obj) and hv.kind == 'bstr':
        return hv.data
    if not (isinstance(hv, Tree) and hv.origin is not None):
        raise Inconclusive('header value %r' % (hv,))
    n = ex.cfg.get('max_header_bytes', 12)
    ln = z3.Int(hv.origin + '.len')
    ex.axioms[hv.origin + '.len'] = z3.And(ln >= 0, ln <= n)
    bs = []
    for i in range(n):
        b = z3.Int('%s.b%d' % (hv.origin, i))
        ex.axioms['%s.b%d' % (hv.origin, i)] = z3.And(b >= 0, b <= 255)
        bs.append(b)
    return (ln, tuple(bs))


@pattern(r'^(http::)?(header::)?HeaderValue::to_str$')
def m_hv_to_str(ex, st, args, dty, canon):
    ln, bs = hv_bytes(ex, st, args[0])
    # http::HeaderValue::to_str: every byte must be visible ASCII (32..=126) or tab
    vis = z3.And(*[z3.Implies(i < ln, z3.Or(z3.And(b >= 32, b < 127), b == 9)) for i, b in enumerate(bs)])
    return models.sym_enum(z3.If(vis, I(0), I(1)), {0: [Obj('bstr', (ln, bs))], 1: [Tree({}, None, 'ToStrError')]}, 'Result')


def parse_uint_spec(ln, bs, bits):
    """(valid, value) of Rust's <uN as FromStr>::from_str on the byte string: optional leading '+',
    at least one digit, digits only, value <= MAX"""
    n = len(bs)
    plus = z3.And(ln >= 1, bs[0] == 43)
    start = z3.If(plus, 1, 0)
    digits_ok = z3.And(*[z3.Implies(z3.And(i >= start, i < ln), z3.And(b >= 48, b <= 57)) for i, b in enumerate(bs)])
    v = z3.IntVal(0)
    for i, b in enumerate(bs):
        v = z3.If(z3.And(i >= start, i < ln), v * 10 + (b - 48), v)
    valid = z3.And(ln - start >= 1, digits_ok, v <= (1 << bits) - 1)
    return valid, v


@pattern(r'^<impl str>::parse::<(u8|u16|u32|u64|usize)>$|^core::str::<impl str>::parse::<(u8|u16|u32|u64|usize)>$')
def m_str_parse_uint(ex, st, args, dty, canon):
    ty = re.search(r'parse::<(\w+)>', canon[4]).group(1)
    s = deref_all(ex, st, args[0])
    if not (isinstance(s, Obj) and s.kind == 'bstr'):
        raise Inconclusive('str::parse on %r' % (s,))
    ln, bs = s.data
    valid, v = parse_uint_spec(ln, bs, INT_BITS[ty])
    return models.sym_enum(z3.If(valid, I(0), I(1)), {0: [Sc(v, ty)], 1: [Tree({}, None, 'ParseIntError')]}, 'Result')


# anyhow error construction: opaque values (never inspected by the state machine)
@pattern(r'anyhow::(__private|kind)|TraitKind>::anyhow_kind$|^anyhow::|kind::Trait::new$|__private::must_use$|^Trait::new$')
def m_anyhow(ex, st, args, dty, canon):
    fr = st.frames[-1]
    return ex.mk_sym(dty, 'anyhow!%s:%d:%d' % (fr.fn.text_hash, fr.bb, fr.visits.get(fr.bb, 0)))


def m_record_first_seen_cut(ex, st, args, dty, canon):
    v = env_event(ex, st, 'record_update_first_seen_time', (ex.snapshot(st, args[1]), args[2]), 'std::time::SystemTime')
    return fut('ready', v)


def cut_record_first_seen(ex):
    ex.model_patterns.insert(0, (re.compile(r'^StateMachine::<.*>::record_update_first_seen_time$'), m_record_first_seen_cut))


def m_puc_cut(ex, st, args, dty, canon):
    """perform_update_check as an event: arbitrary result; of the context it may change the poll interval
    (through exchanges) and last_update_check_time (report_check_interval) -- established by C06/C07/C04."""
    sm = as_ptr(ex, st, args[0], 'perform_update_check self')
    rty = 'std::result::Result<(update_check::Response, RebootAfterUpdate<IR>), UpdateCheckError>'
    res = env_event(ex, st, 'perform_update_check', (ex.snapshot(st, args[1]), ex.snapshot(st, args[2])), rty)
    nm = st.trace[-1].out
    path = sm_field_path(ex, ['context', 'state', 'server_dictated_poll_interval'])
    tp = [(k, None) for k in sm.path] + [(k, None) for k in path[:-1]] + [(path[-1], SPI_TY)]
    ex.store(st, sm.cell, tp, Tree({}, nm + '.spi', SPI_TY))
    path = sm_field_path(ex, ['context', 'schedule', 'last_update_check_time'])
    ty = 'std::option::Option<time::PartialComplexTime>'
    tp = [(k, None) for k in sm.path] + [(k, None) for k in path[:-1]] + [(path[-1], ty)]
    ex.store(st, sm.cell, tp, Tree({}, nm + '.luct', ty))
    return fut('ready', res)


def cut_perform_update_check(ex):
    ex.model_patterns.insert(0, (re.compile(r'^StateMachine::<.*>::perform_update_check$'), m_puc_cut))


# ------------------------------------------------------------------ select!, Fuse, join with pending futures
# Stateful combinators keep their children in cells of their own so that progress survives a Pending.

def _pend_count(st, key):
    return st.extra.get(('pend', key), 0)


def _pend_policy(ex, st, name, key):
    """exploration plans may pin a pendable future: 'fire' (completes when first polled), 'pend' (never
    completes within the explored window) or 'both' (default: either, pending at most max_pending times)"""
    f = ex.cfg.get('pend_policy')
    return f(st, name, key) if f else 'both'


def pendable(ex, name):
    f = ex.cfg.get('pendable')
    return bool(f and f(name))


def m_fuse(ex, st, args, dty, canon):
    return Obj('fut', ('fuse', alloc(ex, st, args[0], 'fused'), False))


def m_join2(ex, st, args, dty, canon):
    a = alloc(ex, st, Obj('fut', ('maybedone', alloc(ex, st, args[0], 'ja'), None)), 'md')
    b = alloc(ex, st, Obj('fut', ('maybedone', alloc(ex, st, args[1], 'jb'), None)), 'md')
    return Obj('fut', ('join2', a, b))


def m_map2(ex, st, args, dty, canon):
    return Obj('fut', ('map', alloc(ex, st, args[0], 'mapped'), args[1]))


def install_select(ex):
    """replace the transparent Fuse/join/map models by stateful ones (needed once futures may be Pending)"""
    pats = [
        (r'^<.* as FutureExt>::fuse$', m_fuse),
        (r'^futures::future::join::<.*>$|^future::join::<.*>$|^join::<.*>$|^futures::futures_util::future::join::<.*>$', m_join2),
        (r'^<.* as FutureExt>::map(::<.*>)?$', m_map2),
        (r' as FusedFuture>::is_terminated$', m_is_terminated),
        (r' as (futures::)?FutureExt>::poll_unpin$', m_poll_unpin),
        (r'^(std::task::)?Poll::<.*>::map::<.*>$', m_poll_map),
        (r'async_await::random::shuffle::<.*>$', m_shuffle),
        (r' as StreamExt>::select_next_some$', m_select_next_some),
        (r' as StreamExt>::next$', m_stream_next),
        (r'^(futures::channel::)?oneshot::Sender::<.*>::send$|oneshot::Sender::<.*>::send$', m_oneshot_send),
        (r'async_await::assert_(fused_future|unpin|fused_stream)::<.*>$', lambda ex, st, args, dty, canon: UNIT),
    ]
    for rx, f in reversed(pats):
        ex.model_patterns.insert(0, (re.compile(rx), f))
    ex.poll_hooks = True


def _fut_at(ex, st, p):
    """(value, pointer) of the future designated by p, looking through Pin / reference layers"""
    cur = p
    for _ in range(5):
        if isinstance(cur, Tree) and cur.origin is None and 0 in cur.f and len([k for k in cur.f if isinstance(k, int)]) == 1 and isinstance(cur.f[0], Ptr):
            cur = cur.f[0]
            continue
        if isinstance(cur, Ptr):
            v = deref(ex, st, cur)
            if isinstance(v, Ptr) or (isinstance(v, Tree) and v.origin is None and 0 in v.f and isinstance(v.f[0], Ptr) and not (v.ty or '').startswith('{coroutine')):
                cur = v
                continue
            return v, cur
        break
    return cur, None


def m_is_terminated(ex, st, args, dty, canon):
    v, p = _fut_at(ex, st, args[0])
    if isinstance(v, Obj) and v.kind == 'fut' and v.data[0] == 'fuse':
        return Sc(z3.BoolVal(bool(v.data[2])), 'bool')
    if isinstance(v, Obj) and v.kind == 'fut' and v.data[0] in ('select_next', 'stream_next'):
        return Sc(z3.BoolVal(bool(st.extra.get('ctl_closed'))), 'bool')      # a closed channel is a terminated stream
    raise Inconclusive('is_terminated on %r' % (v,))


def m_poll_unpin(ex, st, args, dty, canon):
    v, p = _fut_at(ex, st, args[0])
    finish = _call_site(ex, st)

    def cont(ex2, s2, pv):
        return finish(ex2, s2, pv)
    poll2(ex, st, v, p, args[1], cont, inner_ty(dty))
    return NOTHING


def m_poll_map(ex, st, args, dty, canon):
    pv = args[0]
    d = z3.simplify(ex.discr_of(st, pv).t)
    if not z3.is_int_value(d):
        raise Inconclusive('Poll::map on symbolic poll')
    if d.as_long() == 1:
        return pending()
    finish = _call_site(ex, st)

    def cont(ex2, s2, r):
        return finish(ex2, s2, ready(r))
    f = args[1]
    if isinstance(f, Obj) and f.kind == 'fnitem':
        m = re.search(r'__PrivResult(::<.*>)?::_(\d+)$', f.data)
        if m:
            k = int(m.group(2))
            return ready(mk_enum(k, k, [payload(ex, st, pv, 0, 0)], '__PrivResult'))
    r = call_fnlike(ex, st, f, [payload(ex, st, pv, 0, 0)], cont)
    return NOTHING


def m_shuffle(ex, st, args, dty, canon):
    import itertools
    p = as_ptr(ex, st, args[0], 'shuffle')
    arr = deref(ex, st, p)
    n = vec_len(ex, st, arr)
    items = [ex.child(st, arr, i, None) for i in range(n)]
    alts = []
    for perm in itertools.permutations(range(n)):
        def ap(s, perm=perm):
            ex.store(s, p.cell, [(k, None) for k in p.path], Tree(dict((i, items[j]) for i, j in enumerate(perm)), None, arr.ty, arr.meta))
            return UNIT
        alts.append((None, ap))
    if ex.cfg.get('select_orders', 'all') == 'first':
        alts = alts[:1]
    raise Fork(alts)


def m_select_next_some(ex, st, args, dty, canon):
    return Obj('fut', ('select_next', args[0]))


def m_stream_next(ex, st, args, dty, canon):
    """`stream.next()` on the control channel: like select_next_some, but a closed channel yields None"""
    return Obj('fut', ('stream_next', args[0]))


def m_oneshot_send(ex, st, args, dty, canon):
    """the reply is recorded; whether it could be delivered is the environment's choice (Err(value) when the
    requester has dropped its receiving end) - the code must not depend on it"""
    nm = 'ev%d' % len(st.trace)
    st.trace.append(Event('env', 'reply', (args[0], args[1]), nm))
    d = z3.Int(nm + '.delivered')
    ex.axioms[nm + '.delivered'] = z3.And(d >= 0, d <= 1)
    return models.sym_enum(d, {0: [UNIT], 1: [args[1]]}, 'Result')


def poll2(ex, st, fv, fptr, cx, cont, out_ty=None):
    """poll with Pending support for the stateful combinators; falls back to poll_value"""
    if isinstance(fv, Obj) and fv.kind == 'fut':
        k = fv.data[0]
        if k == 'fuse':
            inner_p, done = fv.data[1], fv.data[2]
            if done:
                return cont(ex, st, pending())

            def after(ex2, s2, pv):
                d = z3.simplify(ex2.discr_of(s2, pv).t)
                if not z3.is_int_value(d):
                    raise Inconclusive('symbolic poll result in Fuse')
                if d.as_long() == 0 and fptr is not None:
                    ex2.store(s2, fptr.cell, [(kk, None) for kk in fptr.path], Obj('fut', ('fuse', inner_p, True)))
                return cont(ex2, s2, pv)
            return poll2(ex, st, deref(ex, st, inner_p), inner_p, cx, after, out_ty)
        if k == 'maybedone':
            inner_p, val = fv.data[1], fv.data[2]
            if val is not None:
                return cont(ex, st, ready(val[0]))

            def after(ex2, s2, pv):
                d = z3.simplify(ex2.discr_of(s2, pv).t)
                if z3.is_int_value(d) and d.as_long() == 0:
                    v = payload(ex2, s2, pv, 0, 0)
                    ex2.store(s2, fptr.cell, [(kk, None) for kk in fptr.path], Obj('fut', ('maybedone', inner_p, (v,))))
                return cont(ex2, s2, pv)
            return poll2(ex, st, deref(ex, st, inner_p), inner_p, cx, after)
        if k == 'join2':
            a, b = fv.data[1], fv.data[2]

            def after_a(ex2, s2, pa):
                def after_b(ex3, s3, pb):
                    da = z3.simplify(ex3.discr_of(s3, pa).t)
                    db = z3.simplify(ex3.discr_of(s3, pb).t)
                    if z3.is_int_value(da) and z3.is_int_value(db):
                        if da.as_long() == 0 and db.as_long() == 0:
                            return cont(ex3, s3, ready(Tree({0: payload(ex3, s3, pa, 0, 0), 1: payload(ex3, s3, pb, 0, 0)}, None, None)))
                        return cont(ex3, s3, pending())
                    raise Inconclusive('symbolic poll in join')
                return poll2(ex2, s2, deref(ex2, s2, b), b, cx, after_b)
            return poll2(ex, st, deref(ex, st, a), a, cx, after_a)
        if k == 'map' and isinstance(fv.data[1], Ptr):
            inner_p, clo = fv.data[1], fv.data[2]

            def after(ex2, s2, pv):
                d = z3.simplify(ex2.discr_of(s2, pv).t)
                if not z3.is_int_value(d):
                    raise Inconclusive('symbolic poll in map')
                if d.as_long() == 1:
                    return cont(ex2, s2, pending())

                def after2(ex3, s3, r):
                    return cont(ex3, s3, ready(r))
                return call_fnlike(ex2, s2, clo, [payload(ex2, s2, pv, 0, 0)], after2)
            return poll2(ex, st, deref(ex, st, inner_p), inner_p, cx, after, out_ty)
        if k in ('select_next', 'stream_next'):
            n = st.extra.get('nctl', 0)
            mx = ex.cfg.get('max_control_requests', 1)
            as_opt = (k == 'stream_next')

            def ctl_pending(s):
                s.extra['ctl_polls'] = s.extra.get('ctl_polls', 0) + 1     # the channel was listened to in this poll
                cont(ex, s, pending())
                return NOTHING
            if st.extra.get('ctl_closed'):
                # every handle is gone: select_next_some never completes, next() keeps returning None
                if as_opt:
                    return cont(ex, st, ready(none()))
                return ctl_pending(st)
            alts = [(None, ctl_pending)]
            ctl_pol = ex.cfg.get('ctl_policy')        # exploration plans may pin when requests arrive
            if n < mx and (ctl_pol is None or ctl_pol(st, n)):
                def got(s, n=n):
                    s.extra['ctl_polls'] = s.extra.get('ctl_polls', 0) + 1
                    s.extra['nctl'] = n + 1
                    req = Tree({}, 'ctl%d' % n, 'state_machine::ControlRequest')
                    s.trace.append(Event('env', 'control-request', (req,), 'ctl%d' % n))
                    cont(ex, s, ready(some(req) if as_opt else req))
                    return NOTHING
                alts.append((None, got))
            if ex.cfg.get('control_may_close'):
                def closed(s):
                    s.extra['ctl_polls'] = s.extra.get('ctl_polls', 0) + 1
                    s.extra['ctl_closed'] = True
                    s.trace.append(Event('env', 'control-closed', (), 'ctlclosed'))
                    if as_opt:
                        cont(ex, s, ready(none()))
                    else:
                        cont(ex, s, pending())
                    return NOTHING
                alts.append((None, closed))
            raise Fork(alts)
        if k == 'pendable':
            name, val = fv.data[1], fv.data[2]
            key = name
            n = _pend_count(st, key)
            evname = next((e.name for e in st.trace if e.out == name), name)
            pol = _pend_policy(ex, st, evname, key)
            alts = [(None, lambda s: (cont(ex, s, ready(val)), NOTHING)[1])] if pol != 'pend' else []
            if (n < ex.cfg.get('max_pending', 1) and pol != 'fire') or pol == 'pend':
                def pend(s):
                    s.extra[('pend', key)] = n + 1
                    cont(ex, s, pending())
                    return NOTHING
                alts.append((None, pend))
            raise Fork(alts)
    if isinstance(fv, Tree) and fv.origin is not None and re.match(r'^ev\d+$', fv.origin or ''):
        m = re.match(r'^ev(\d+)$', fv.origin)
        name = st.trace[int(m.group(1))].name if int(m.group(1)) < len(st.trace) else ''
        if pendable(ex, name):
            key = fv.origin
            if st.extra.get(('fired', key)):
                return poll_value(ex, st, fv, fptr, cx, cont, out_ty)
            n = _pend_count(st, key)

            def fire(s):
                s.extra[('fired', key)] = True
                s.extra[('firedat', key)] = len(s.trace)
                poll_value(ex, s, fv, fptr, cx, cont, out_ty)
                return NOTHING
            pol = _pend_policy(ex, st, name, key)
            alts = [(None, fire)] if pol != 'pend' else []
            if (n < ex.cfg.get('max_pending', 1) and pol != 'fire') or pol == 'pend':
                def pend(s):
                    s.extra[('pend', key)] = n + 1
                    cont(ex, s, pending())
                    return NOTHING
                alts.append((None, pend))
            raise Fork(alts)
    if isinstance(fv, Ptr):
        return poll2(ex, st, deref(ex, st, fv), fv, cx, cont, out_ty)
    return poll_value(ex, st, fv, fptr, cx, cont, out_ty)


def m_start_update_check_cut(ex, st, args, dty, canon):
    """start_update_check as an event returning the reboot decision; may be Pending so that control
    requests can arrive while the check runs"""
    rty = 'state_machine::RebootAfterUpdate<IR>'
    res = env_event(ex, st, 'start_update_check', (ex.snapshot(st, args[1]),), rty)
    return Obj('fut', ('pendable', st.trace[-1].out, res))


def cut_start_update_check(ex):
    ex.model_patterns.insert(0, (re.compile(r'^StateMachine::<.*>::start_update_check$'), m_start_update_check_cut))


def m_ping_cut(ex, st, args, dty, canon):
    env_event(ex, st, 'ping_omaha', (), '()')
    return fut('ready', UNIT)


def cut_ping(ex):
    ex.model_patterns.insert(0, (re.compile(r'^StateMachine::<.*>::ping_omaha$'), m_ping_cut))


@pattern(r'^(futures::)?future::poll_fn::<.*>$|^std::future::poll_fn::<.*>$')
def m_poll_fn(ex, st, args, dty, canon):
    return Obj('fut', ('poll_fn', args[0]))


_orig_poll2 = poll2


def poll2(ex, st, fv, fptr, cx, cont, out_ty=None):      # noqa: F811  (adds poll_fn support)
    if isinstance(fv, Obj) and fv.kind == 'fut' and fv.data[0] == 'poll_fn':
        clo = fv.data[1]
        # the closure is FnMut(&mut Context) -> Poll<T>; it lives inside the PollFn object: give it a cell
        if fptr is not None:
            cp = Ptr(fptr.cell, fptr.path)      # same storage (the closure state is its captured references)
        cl = clo
        fn, tv = ex.closure_fn_for(st, clo)
        if fn is None:
            raise Inconclusive('poll_fn closure not found')
        if fn.args[0][1].strip().startswith('&') and not isinstance(clo, Ptr):
            key = ('pollfn', id(fv))
            cl = alloc(ex, st, clo, 'pollfn')
        ex.new_frame(st, fn, [cl, cx], on_return=cont)
        return PUSHED
    return _orig_poll2(ex, st, fv, fptr, cx, cont, out_ty)


@pattern(r'^(alloc::|std::)?fmt::format$|^std::fmt::format$|^alloc::fmt::format$')
def m_fmt_format(ex, st, args, dty, canon):
    fr = st.frames[-1]
    nm = 'fmt!%s:%d:%d' % (fr.fn.text_hash, fr.bb, fr.visits.get(fr.bb, 0))
    a = args[0] if args else None
    if isinstance(a, Tree) and a.ty == 'fmt::Arguments':
        st.extra[('fmt', nm)] = a           # what was formatted (template constant and argument values)
    return Sc(z3.String(nm), 'str')


@pattern(r'(^|::)must_use(::<.*>)?$')
def m_must_use(ex, st, args, dty, canon):
    return args[0]


@pattern(r'^(core::fmt::rt::)?Argument::<?.*>?::new_(debug|display|lower_hex|upper_hex)(::<.*>)?$|^Argument::new_(debug|display|lower_hex|upper_hex)$')
def m_fmt_argument(ex, st, args, dty, canon):
    return Tree({0: ex.snapshot(st, args[0]), 1: Sc(z3.StringVal(canon[3]), 'str')}, None, 'fmt::Argument')


@pattern(r'^(core::fmt::)?Arguments::<?.*>?::new(_const|_v1)?(::<.*>)?$|^Arguments::new$')
def m_fmt_arguments(ex, st, args, dty, canon):
    tmpl = deref_all(ex, st, args[0]) if args else None
    arr = deref_all(ex, st, args[1]) if len(args) > 1 else None
    return Tree({0: tmpl, 1: arr}, None, 'fmt::Arguments')


@pattern(r'^(std::string::)?String::is_empty$|^<impl str>::is_empty$|^core::str::<impl str>::is_empty$')
def m_string_is_empty(ex, st, args, dty, canon):
    s_ = as_str(ex, st, args[0])
    return Sc(z3.Length(s_.t) == 0, 'bool')


@pattern(r'^<\[(u8|u16|u32|u64|usize|i32|i64); \d+\] as PartialEq>::(eq|ne)$')
def m_int_array_eq(ex, st, args, dty, canon):
    a = deref_all(ex, st, args[0])
    b = deref_all(ex, st, args[1])
    n = int(re.search(r'; (\d+)\]', canon[4]).group(1))
    ty = re.search(r'\[(\w+);', canon[4]).group(1)
    e = z3.And(*[ex.child(st, a, i, ty).t == ex.child(st, b, i, ty).t for i in range(n)])
    return Sc(e if canon[3] == 'eq' else z3.Not(e), 'bool')


@pattern(r' as PartialEq(<.*>)?>::ne$')
def m_generic_ne(ex, st, args, dty, canon):
    """default `ne`: the negation of the type's own `eq` (taken from the crate MIR)"""
    key = canon[0][:-2] + 'eq'
    d = ex.find_def(key, nargs=2)
    if d is None:
        raise Inconclusive('no eq body for %s' % canon[0])
    finish = _call_site(ex, st)

    def cont(ex2, s2, r):
        return finish(ex2, s2, Sc(z3.Not(ex2.as_bool(r)), 'bool'))
    ex.new_frame(st, d, list(args), on_return=cont)
    return NOTHING


# ------------------------------------------------------------------ str::split over bounded byte strings

def bstr_of(ex, st, v):
    v = deref_all(ex, st, v)
    if isinstance(v, Obj) and v.kind == 'bstr':
        return v.data
    raise Inconclusive('not a bounded byte string: %r' % (v,))


def const_bytes(ex, st, v):
    """python list of z3 byte terms of a byte-array value (literal b".." or array of scalars)"""
    v = deref_all(ex, st, v)
    if isinstance(v, Obj) and v.kind == 'bytes':
        return [x.t for x in v.data]
    if isinstance(v, Tree) and v.f and all(isinstance(k, int) for k in v.f if not isinstance(k, str)):
        ks = sorted(k for k in v.f if isinstance(k, int))
        if ks == list(range(len(ks))) and all(isinstance(v.f[k], Sc) for k in ks):
            return [v.f[k].t for k in ks]
    if isinstance(v, Obj) and v.kind == 'bstr':
        ln = z3.simplify(v.data[0])
        if z3.is_int_value(ln):
            return list(v.data[1][:ln.as_long()])
    raise Inconclusive('not a constant-length byte array: %r' % (v,))


@pattern(r'^<impl \[u8\]>::strip_prefix(::<.*>)?$|^core::slice::<impl \[u8\]>::strip_prefix(::<.*>)?$')
def m_bytes_strip_prefix(ex, st, args, dty, canon):
    ln, bs = bstr_of(ex, st, args[0])
    nd = const_bytes(ex, st, args[1])
    k, n = len(nd), len(bs)
    hit = z3.And(ln >= k, *[bs[i] == nd[i] for i in range(k)]) if k <= n else z3.BoolVal(False)
    rest = Obj('bstr', (ln - k, (tuple(bs[k:]) + tuple(z3.IntVal(0) for _ in range(k)))[:n]))
    return models.sym_enum(z3.If(hit, I(1), I(0)), {1: [rest], 0: []}, 'Option')


@pattern(r'^<impl \[u8\]>::(starts_with|ends_with)$|^core::slice::<impl \[u8\]>::(starts_with|ends_with)$')
def m_bytes_starts_with(ex, st, args, dty, canon):
    ln, bs = bstr_of(ex, st, args[0])
    nd = const_bytes(ex, st, args[1])
    k = len(nd)
    if canon[3] == 'starts_with':
        if k > len(bs):
            return Sc(z3.BoolVal(False), 'bool')
        return Sc(z3.And(ln >= k, *[bs[i] == nd[i] for i in range(k)]), 'bool')
    # ends_with: the tail position depends on the length
    alts = [z3.And(ln == L, *[bs[L - k + i] == nd[i] for i in range(k)]) for L in range(k, len(bs) + 1)]
    return Sc(z3.Or(alts) if alts else z3.BoolVal(False), 'bool')


def _pat_bytes(ex, st, pat, raw):
    """the bytes of a str / char pattern argument (literal)"""
    pat = deref_all(ex, st, pat)
    if isinstance(pat, Sc) and pat.ty == 'char':
        t = z3.simplify(pat.t)
        if z3.is_int_value(t) and t.as_long() < 128:
            return [z3.IntVal(t.as_long())]
        raise Inconclusive('non-ASCII / symbolic char pattern')
    if isinstance(pat, Sc) and z3.is_string_value(z3.simplify(pat.t)):
        return [z3.IntVal(b) for b in z3.simplify(pat.t).as_string().encode()]
    return const_bytes(ex, st, pat)


@pattern(r'<impl str>::(trim|trim_start|trim_end)$|<impl str>::(trim_matches|trim_start_matches|trim_end_matches)::<(char|&str|&&str|&String)>$')
def m_str_trim(ex, st, args, dty, canon):
    """str trimming on an unbounded (z3) string: the result is some substring of the argument (which one is
    not modelled: over-approximation, named trim!... so that it is a value of the code, not a havoc)"""
    s = deref_all(ex, st, args[0])
    if isinstance(s, Obj) and s.kind == 'bstr':
        raise Inconclusive('str::trim on a bounded byte string')
    t = as_str(ex, st, s).t
    fr = st.frames[-1]
    name = 'trim!%s:%d:%d' % (fr.fn.text_hash, fr.bb, fr.visits.get(fr.bb, 0))
    r = z3.String(name)
    ex.axioms[name] = z3.Contains(t, r)
    return Sc(r, 'str')


@pattern(r'<impl str>::(strip_prefix|strip_suffix|starts_with|ends_with)::<(char|&str|&&str|&String)>$')
def m_str_strip(ex, st, args, dty, canon):
    """on a bounded byte string with a literal pattern; strip_suffix forks on the length (the tail position
    depends on it)"""
    ln, bs = bstr_of(ex, st, args[0])
    pb = _pat_bytes(ex, st, args[1], canon[4])
    k = len(pb)
    n = len(bs)
    op = canon[3].split('::')[0]
    if op in ('strip_prefix', 'starts_with'):
        hit = z3.And(ln >= k, *[bs[i] == pb[i] for i in range(k)]) if k <= n else z3.BoolVal(False)
        if op == 'starts_with':
            return Sc(hit, 'bool')
        rest = Obj('bstr', (ln - k, (tuple(bs[k:]) + tuple(z3.IntVal(0) for _ in range(k)))[:n]))
        return models.sym_enum(z3.If(hit, I(1), I(0)), {1: [rest], 0: []}, 'Option')
    if op == 'ends_with':
        alts_ = [z3.And(ln == L, *[bs[L - k + i] == pb[i] for i in range(k)]) for L in range(k, n + 1)]
        return Sc(z3.Or(alts_) if alts_ else z3.BoolVal(False), 'bool')
    alts = []
    for L in range(n + 1):
        if L >= k:
            hit = z3.And(ln == L, *[bs[L - k + i] == pb[i] for i in range(k)])
            alts.append((hit, (lambda L=L: (lambda s_: some(Obj('bstr', (z3.IntVal(L - k), tuple(bs))))))()))
            alts.append((z3.And(ln == L, z3.Not(z3.And(*[bs[L - k + i] == pb[i] for i in range(k)])) if k else z3.BoolVal(False)), lambda s_: none()))
        else:
            alts.append((ln == L, lambda s_: none()))
    raise Fork(alts)


@pattern(r'^<\[u8\] as (std::ops::|core::ops::)?Index<(std::ops::|core::ops::)?(range::)?(RangeFrom|RangeTo|Range)<usize>>>::index$')
def m_bytes_index_range(ex, st, args, dty, canon):
    """sub-slice of a bounded byte string with concrete bounds; out of range panics as the real indexing does"""
    ln, bs = bstr_of(ex, st, args[0])
    r = deref_all(ex, st, args[1])
    kind = re.search(r'(RangeFrom|RangeTo|Range)<usize>', canon[4]).group(1)
    def conc(v):
        t = z3.simplify(v.t)
        if not z3.is_int_value(t):
            raise Inconclusive('slice bound is symbolic')
        return t.as_long()
    n = len(bs)
    if kind == 'RangeFrom':
        a = conc(ex.child(st, r, 0, 'usize'))
        bad = ln < a
        new = (ln - a, tuple(bs[a:]) + tuple(z3.IntVal(0) for _ in range(min(a, n))))
    elif kind == 'RangeTo':
        b = conc(ex.child(st, r, 0, 'usize'))
        bad = ln < b
        new = (z3.IntVal(b), tuple(bs))
    else:
        a, b = conc(ex.child(st, r, 0, 'usize')), conc(ex.child(st, r, 1, 'usize'))
        bad = z3.Or(ln < b, z3.BoolVal(a > b))
        new = (z3.IntVal(max(b - a, 0)), tuple(bs[a:]) + tuple(z3.IntVal(0) for _ in range(min(a, n))))

    def panic(s_):
        s_.status = 'panic'
        s_.info = 'slice index out of range (range %s of a slice whose length may be smaller)' % kind
        return NOTHING
    alts = [(z3.Not(bad), lambda s_: Obj('bstr', (new[0], new[1][:n])))]
    if ex.check(st, [bad]) == 'sat':
        alts.append((bad, panic))
    if len(alts) == 1:
        return Obj('bstr', (new[0], new[1][:n]))
    raise Fork(alts)


@pattern(r'<impl str>::split::<char>$')
def m_str_split_char(ex, st, args, dty, canon):
    """fork on the length and on which positions hold the separator; pieces then have concrete extents"""
    import itertools
    ln, bs = bstr_of(ex, st, args[0])
    sep = z3.simplify(args[1].t)
    n = len(bs)
    alts = []
    # positions that can / cannot hold the separator under the path condition (prunes the mask product)
    opts = []
    for i in range(n):
        o_ = []
        if ex.check(st, [bs[i] != sep]) == 'sat':
            o_.append(False)
        if ex.check(st, [bs[i] == sep]) == 'sat':
            o_.append(True)
        opts.append(tuple(o_))
    for L in range(n + 1):
        for mask in itertools.product(*opts[:L]):
            cond = z3.And(ln == L, *[(bs[i] == sep) == z3.BoolVal(mask[i]) for i in range(L)])

            def mk(L=L, mask=mask):
                def f(s):
                    pieces = []
                    start = 0
                    for i in range(L + 1):
                        if i == L or mask[i]:
                            seg = tuple(bs[start:i]) + tuple(z3.IntVal(0) for _ in range(n - (i - start)))
                            pieces.append(Obj('bstr', (z3.IntVal(i - start), seg)))
                            start = i + 1
                    s.extra['split'] = (L, mask)
                    return it('val', tuple(pieces), 0)
                return f
            alts.append((cond, mk()))
    raise Fork(alts)


# ------------------------------------------------------------------ vec! lowering, slices, header names

@pattern(r'^Box::<.*>::new_uninit$|^std::boxed::Box::<.*>::new_uninit$')
def m_box_new_uninit(ex, st, args, dty, canon):
    p = alloc(ex, st, Tree({}, None, None), 'uninitbox')
    return Tree({0: Tree({0: p}, None, 'Unique')}, None, dty)


@pattern(r'box_assume_init_into_vec_unsafe::<.*>$')
def m_box_into_vec(ex, st, args, dty, canon):
    b = args[0]
    p = ex.child(st, ex.child(st, b, 0, None), 0, None)
    if not isinstance(p, Ptr):
        raise Inconclusive('box_assume_init_into_vec_unsafe on %r' % (b,))
    cell = deref(ex, st, p)
    arr = ex.child(st, ex.child(st, ex.child(st, cell, 1, None), 0, None), 0, None)
    n = len([k for k in arr.f if isinstance(k, int)])
    return mk_vec([arr.f[i] for i in range(n)], dty)


@pattern(r'^<impl \[.*\]>::(first|last)$')
def m_slice_first(ex, st, args, dty, canon):
    p = as_ptr(ex, st, args[0], 'slice::first')
    v = deref(ex, st, p)
    n = vec_len(ex, st, v)
    if n == 0:
        return none()
    return some(Ptr(p.cell, p.path + ((0 if canon[3] == 'first' else n - 1),)))


@pattern(r'^<impl \[(.*)\]>::contains$|^core::slice::<impl \[(.*)\]>::contains$|^Vec::<(.*)>::contains$')
def m_slice_contains(ex, st, args, dty, canon):
    """membership decided with the element type's own equality: integers / strings directly, other types through
    their `PartialEq::eq` body in the crate"""
    p = as_ptr(ex, st, args[0], 'slice::contains')
    v = deref(ex, st, p)
    if isinstance(v, Ptr):
        p = v
        v = deref(ex, st, p)
    n = vec_len(ex, st, v)
    m_ = re.search(r'\[(.*)\]>::contains$|Vec::<(.*)>::contains$', canon[4])
    ety = (m_.group(1) or m_.group(2) or '').strip()
    needle = args[1]
    finish = _call_site(ex, st)
    if ety in INT_BITS or ety in ('String', 'std::string::String', '&str', 'bool', 'char'):
        nd = deref_all(ex, st, needle)
        nt = nd.t if isinstance(nd, Sc) else as_str(ex, st, nd).t
        terms = []
        for i in range(n):
            e_ = deref_all(ex, st, ex.child(st, v, i, ety))
            terms.append((e_.t if isinstance(e_, Sc) else as_str(ex, st, e_).t) == nt)
        return Sc(z3.Or([z3.BoolVal(False)] + terms), 'bool')
    eqf = Obj('fnitem', '<%s as PartialEq>::eq' % ety)

    def step(ex2, s2, i, acc):
        if i >= n:
            return finish(ex2, s2, Sc(z3.simplify(acc), 'bool'))

        def c2(ex3, s3, r):
            return step(ex3, s3, i + 1, z3.Or(acc, ex3.as_bool(r)))
        return call_fnlike(ex2, s2, eqf, [Ptr(p.cell, p.path + (i,)), needle], c2)
    step(ex, st, 0, z3.BoolVal(False))
    return NOTHING


@pattern(r'^<impl \[.*\]>::(get|get_mut)::<usize>$|^core::slice::<impl \[.*\]>::(get|get_mut)::<usize>$|^Vec::<.*>::(get|get_mut)::<usize>$')
def m_slice_get(ex, st, args, dty, canon):
    p = as_ptr(ex, st, args[0], 'slice::get')
    v = deref(ex, st, p)
    if isinstance(v, Ptr):
        p = v
        v = deref(ex, st, p)
    n = vec_len(ex, st, v) if not (isinstance(v, Tree) and re.match(r'^\[.*; \d+\]$', (v.ty or '').strip())) else int(re.search(r'; (\d+)\]$', v.ty.strip()).group(1))
    idx = z3.simplify(args[1].t)
    if z3.is_int_value(idx):
        i = idx.as_long()
        return some(Ptr(p.cell, p.path + (i,))) if i < n else none()
    alts = [(args[1].t == i, (lambda i: (lambda s_: some(Ptr(p.cell, p.path + (i,)))))(i)) for i in range(n)]
    alts.append((args[1].t >= n, lambda s_: none()))
    raise Fork(alts)


@pattern(r'^<impl str>::len$|^core::str::<impl str>::len$|^(std::string::)?String::len$')
def m_str_len(ex, st, args, dty, canon):
    v = deref_all(ex, st, args[0])
    if isinstance(v, Obj) and v.kind == 'bstr':
        return Sc(v.data[0], 'usize')
    s_ = as_str(ex, st, v)
    t = z3.simplify(s_.t)
    if z3.is_string_value(t):
        return Sc(z3.IntVal(len(t.as_string().encode())), 'usize')
    # an unbounded symbolic string: its length is a non-negative integer that is 0 exactly for the empty string
    # (an abstraction of z3's sequence length, which stalls the solver on these queries; nothing else about the
    # relation between content and length is used)
    nm = 'strlen!' + str(t)
    c = z3.Int(nm)
    ex.axioms[nm] = z3.And(c >= 0, (c == 0) == (t == z3.StringVal('')))
    return Sc(c, 'usize')


@pattern(r'^<impl \[.*\]>::(len|is_empty)$|^core::slice::<impl \[.*\]>::(len|is_empty)$')
def m_slice_len(ex, st, args, dty, canon):
    v = deref_all(ex, st, args[0])
    if isinstance(v, Obj) and v.kind == 'bstr':
        ln = v.data[0]
    elif isinstance(v, Obj) and v.kind == 'bytes':
        ln = z3.IntVal(len(v.data))
    else:
        ln = z3.IntVal(vec_len(ex, st, v))
    return Sc(ln, 'usize') if canon[3] == 'len' else Sc(ln == 0, 'bool')


@pattern(r'^(http::)?(header::)?HeaderName::as_str$')
def m_header_name_as_str(ex, st, args, dty, canon):
    v = deref_all(ex, st, args[0])
    nm = v.data if isinstance(v, Obj) and v.kind == 'fnitem' else 'header'
    return Sc(z3.StringVal('<%s>' % nm.split('::')[-1].lower().replace('_', '-')), 'str')


@pattern(r'^Vec::<.*>::swap_remove$')
def m_vec_swap_remove(ex, st, args, dty, canon):
    p = as_ptr(ex, st, args[0], 'Vec::swap_remove')
    v = deref(ex, st, p)
    items = vec_items(ex, st, v)
    idx = z3.simplify(args[1].t)
    if not z3.is_int_value(idx):
        raise Inconclusive('Vec::swap_remove with symbolic index')
    i = idx.as_long()
    if i >= len(items):
        st.status = 'panic'
        st.info = 'Vec::swap_remove index %d out of bounds (len %d)' % (i, len(items))
        return NOTHING
    it_ = items[i]
    rest = list(items)
    rest[i] = rest[-1]
    rest.pop()
    ex.store(st, p.cell, [(k, None) for k in p.path], mk_vec(rest, v.ty))
    return it_


@pattern(r'^Vec::<.*>::pop$')
def m_vec_pop(ex, st, args, dty, canon):
    p = as_ptr(ex, st, args[0], 'Vec::pop')
    v = deref(ex, st, p)
    items = vec_items(ex, st, v)
    if not items:
        return none()
    ex.store(st, p.cell, [(k, None) for k in p.path], mk_vec(items[:-1], v.ty))
    return some(items[-1])


@pattern(r'^Vec::<.*>::insert$')
def m_vec_insert(ex, st, args, dty, canon):
    p = as_ptr(ex, st, args[0], 'Vec::insert')
    v = deref(ex, st, p)
    items = vec_items(ex, st, v)
    idx = z3.simplify(args[1].t)
    if not z3.is_int_value(idx) or idx.as_long() > len(items):
        raise Inconclusive('Vec::insert index')
    i = idx.as_long()
    ex.store(st, p.cell, [(k, None) for k in p.path], mk_vec(items[:i] + [args[2]] + items[i:], v.ty))
    return UNIT
