"""Model library for mirsym: std / dependency functions that have no body in the crate's MIR dump.

Each model is a python function (ex, st, args, dest_ty, canon) -> value | raises Fork.
Every model is part of the trusted base; the ones with a native counterpart are validated
differentially against the real function by the replay harness (see validate_models.py).
"""
import re
import z3
from engine import (Sc, Tree, Ptr, Obj, UNIT, Fork, Inconclusive, Event, PUSHED, NOTHING, INT_BITS,
                    int_range, type_head, type_args, pointee, strip_ref, is_string_ty)

MODELS = {}
PATTERNS = []
STD_CONSTS = {}


def model(*keys):
    def deco(f):
        for k in keys:
            MODELS[k] = f
        return f
    return deco


def pattern(rx):
    def deco(f):
        PATTERNS.append((re.compile(rx), f))
        return f
    return deco


def install(ex):
    EX[0] = ex
    ex.models.update(MODELS)
    ex.model_patterns.extend(PATTERNS)
    ex.std_consts = STD_CONSTS
    orig = ex.const_value

    def const_value(st, frame, text, want_ty=None):
        t = ex.strip_generics(text.strip())
        for k, mk in STD_CONSTS.items():
            if t == k or t.endswith('::' + k):
                return mk(ex)
        return orig(st, frame, text, want_ty)
    ex.const_value = const_value


# ------------------------------------------------------------------ helpers

def I(n):
    return z3.IntVal(n)


def sc(t, ty):
    return Sc(t, ty)


def mk_enum(discr, idx, vals, ty=None):
    f = {'discr': Sc(I(discr), 'isize')}
    f[('v', idx)] = Tree(dict(enumerate(vals)), None, None)
    return Tree(f, None, ty)


def sym_enum(discr_term, variants, ty=None):
    """enum value with a symbolic discriminant and the payloads of several variants present
    (the consumer's own `switchInt` decides; no fork here)"""
    f = {'discr': Sc(discr_term, 'isize')}
    for idx, vals in variants.items():
        f[('v', idx)] = Tree(dict(enumerate(vals)), None, None)
    return Tree(f, None, ty)


def b2d(cond, t=0, e=1):
    return z3.If(cond, I(t), I(e))


def some(v, ty='Option'):
    return mk_enum(1, 1, [v], ty)


def none(ty='Option'):
    return mk_enum(0, 0, [], ty)


def ok(v, ty='Result'):
    return mk_enum(0, 0, [v], ty)


def err(v, ty='Result'):
    return mk_enum(1, 1, [v], ty)


def ready(v, ty='Poll'):
    return mk_enum(0, 0, [v], ty)


def pending(ty='Poll'):
    return mk_enum(1, 1, [], ty)


def deref(ex, st, v):
    """follow a pointer (one level) to the value it designates"""
    if isinstance(v, Ptr):
        return ex.load(st, v.cell, [(k, None) for k in v.path])
    return v


def deref_all(ex, st, v):
    n = 0
    while isinstance(v, Ptr) and n < 4:
        v = deref(ex, st, v)
        n += 1
    return v


def payload(ex, st, v, idx, i, ty=None):
    """field i of variant idx of enum value v"""
    p = ex.child(st, v, ('v', idx), None)
    return ex.child(st, p, i, ty)


def enum_cases(ex, st, v, n, ty=None):
    """[(cond, idx)] for the discriminant of v over variants 0..n-1 (explicit discriminants = index)"""
    d = ex.discr_of(st, v, ty)
    ds = z3.simplify(d.t)
    if z3.is_int_value(ds):
        return [(None, ds.as_long())]
    return [(d.t == i, i) for i in range(n)]


def fork_on(cases, fn):
    """cases: [(cond, idx)], fn(st, idx) -> value"""
    if len(cases) == 1 and cases[0][0] is None:
        return None
    raise Fork([(c, (lambda i: (lambda s: fn(s, i)))(i)) for c, i in cases])


def inner_ty(ty, k=0):
    a = type_args(ty or '')
    return a[k] if len(a) > k else None


# ------------------------------------------------------------------ time

NANOS = 1000000000


def dur_parts(ex, st, v):
    """(secs Int, nanos Int) of a Duration value; registers the nanos < 1e9 invariant for symbolic ones"""
    v = deref_all(ex, st, v)
    if not isinstance(v, Tree):
        raise Inconclusive('Duration value %r' % (v,))
    s = ex.child(st, v, 0, 'u64')
    n = ex.child(st, v, 1, 'u32')
    if v.origin is not None and 1 not in v.f:
        nm = '%s.1' % v.origin
        ex.axioms[nm] = z3.And(n.t >= 0, n.t < NANOS)
    return s.t, n.t


def mk_dur(secs, nanos):
    return Tree({0: Sc(secs, 'u64'), 1: Sc(nanos, 'u32')}, None, 'Duration')


def dur_from_total_nanos(total, ex=None):
    q, r = EX[0].divmod_const(total, NANOS)
    return mk_dur(q, r)


EX = [None]


def dur_total_nanos(ex, st, v):
    s, n = dur_parts(ex, st, v)
    return s * NANOS + n


def time_parts(ex, st, v):
    """(sec i64, nsec u32<1e9) of SystemTime / Instant (std::sys::pal::unix::time::Timespec)"""
    v = deref_all(ex, st, v)
    if not isinstance(v, Tree):
        raise Inconclusive('time value %r' % (v,))
    s = ex.child(st, v, 0, 'i64')
    n = ex.child(st, v, 1, 'u32')
    if v.origin is not None and 1 not in v.f:
        ex.axioms['%s.1' % v.origin] = z3.And(n.t >= 0, n.t < NANOS)
    return s.t, n.t


def mk_time(sec, nsec, ty='SystemTime'):
    return Tree({0: Sc(sec, 'i64'), 1: Sc(nsec, 'u32')}, None, ty)


def time_total_nanos(ex, st, v):
    s, n = time_parts(ex, st, v)
    return s * NANOS + n


I64_MIN, I64_MAX = int_range('i64')
U64_MAX = int_range('u64')[1]

STD_CONSTS['SystemTime::UNIX_EPOCH'] = lambda ex: mk_time(I(0), I(0))
STD_CONSTS['UNIX_EPOCH'] = lambda ex: mk_time(I(0), I(0))
STD_CONSTS['Duration::ZERO'] = lambda ex: mk_dur(I(0), I(0))
STD_CONSTS['Duration::MAX'] = lambda ex: mk_dur(I(U64_MAX), I(NANOS - 1))
STD_CONSTS['u64::MAX'] = lambda ex: Sc(I(U64_MAX), 'u64')
STD_CONSTS['i64::MAX'] = lambda ex: Sc(I(I64_MAX), 'i64')
STD_CONSTS['i64::MIN'] = lambda ex: Sc(I(I64_MIN), 'i64')
STD_CONSTS['u32::MAX'] = lambda ex: Sc(I(2 ** 32 - 1), 'u32')
for _nm, _code in (('CONTINUE', 100), ('OK', 200), ('CREATED', 201), ('ACCEPTED', 202), ('NO_CONTENT', 204), ('PARTIAL_CONTENT', 206),
                   ('MOVED_PERMANENTLY', 301), ('FOUND', 302), ('NOT_MODIFIED', 304), ('TEMPORARY_REDIRECT', 307), ('BAD_REQUEST', 400),
                   ('UNAUTHORIZED', 401), ('FORBIDDEN', 403), ('NOT_FOUND', 404), ('TOO_MANY_REQUESTS', 429),
                   ('INTERNAL_SERVER_ERROR', 500), ('BAD_GATEWAY', 502), ('SERVICE_UNAVAILABLE', 503), ('GATEWAY_TIMEOUT', 504)):
    STD_CONSTS['StatusCode::' + _nm] = (lambda c: (lambda ex: Tree({0: Sc(I(c), 'u16')}, None, 'http::StatusCode')))(_code)


@model('Duration::from_secs')
def m_from_secs(ex, st, args, dty, canon):
    return mk_dur(args[0].t, I(0))


@model('Duration::from_millis')
def m_from_millis(ex, st, args, dty, canon):
    q, r = ex.divmod_const(args[0].t, 1000)
    return mk_dur(q, r * 1000000)


@model('Duration::from_micros')
def m_from_micros(ex, st, args, dty, canon):
    q, r = ex.divmod_const(args[0].t, 1000000)
    return mk_dur(q, r * 1000)


@model('Duration::from_nanos')
def m_from_nanos(ex, st, args, dty, canon):
    q, r = ex.divmod_const(args[0].t, NANOS)
    return mk_dur(q, r)


@model('Duration::new')
def m_dur_new(ex, st, args, dty, canon):
    # panics if secs + nanos/1e9 overflows u64
    q, r = ex.divmod_const(args[1].t, NANOS)
    secs = args[0].t + q
    ovf = secs > U64_MAX

    def okk(s):
        return mk_dur(secs, r)

    def bad(s):
        s.status = 'panic'
        s.info = 'overflow in Duration::new'
        return NOTHING
    raise Fork([(z3.Not(ovf), okk), (ovf, bad)])


@model('Duration::as_secs')
def m_as_secs(ex, st, args, dty, canon):
    s, n = dur_parts(ex, st, args[0])
    return Sc(s, 'u64')


@model('Duration::subsec_nanos')
def m_subsec_nanos(ex, st, args, dty, canon):
    s, n = dur_parts(ex, st, args[0])
    return Sc(n, 'u32')


@model('Duration::as_millis')
def m_as_millis(ex, st, args, dty, canon):
    s, n = dur_parts(ex, st, args[0])
    return Sc(s * 1000 + ex.idiv(n, 1000000), 'u128')


@model('Duration::as_micros')
def m_as_micros(ex, st, args, dty, canon):
    s, n = dur_parts(ex, st, args[0])
    return Sc(s * 1000000 + ex.idiv(n, 1000), 'u128')


@model('Duration::as_nanos')
def m_as_nanos(ex, st, args, dty, canon):
    s, n = dur_parts(ex, st, args[0])
    return Sc(s * NANOS + n, 'u128')


@model('Duration::checked_sub')
def m_dur_checked_sub(ex, st, args, dty, canon):
    a = dur_total_nanos(ex, st, args[0])
    b = dur_total_nanos(ex, st, args[1])
    return sym_enum(b2d(a >= b, 1, 0), {1: [dur_from_total_nanos(a - b)], 0: []}, 'Option')


@model('Duration::checked_add')
def m_dur_checked_add(ex, st, args, dty, canon):
    a = dur_total_nanos(ex, st, args[0])
    b = dur_total_nanos(ex, st, args[1])
    fits = ex.idiv(a + b, NANOS) <= U64_MAX
    return sym_enum(b2d(fits, 1, 0), {1: [dur_from_total_nanos(a + b)], 0: []}, 'Option')


def _panic(msg):
    def f(s):
        s.status = 'panic'
        s.info = msg
        return NOTHING
    return f


@model('<Duration as Add>::add')
def m_dur_add(ex, st, args, dty, canon):
    a = dur_total_nanos(ex, st, args[0])
    b = dur_total_nanos(ex, st, args[1])
    fits = ex.idiv(a + b, NANOS) <= U64_MAX
    raise Fork([(fits, lambda s: dur_from_total_nanos(a + b)),
                (z3.Not(fits), _panic('overflow when adding durations'))])


@model('<Duration as Sub>::sub')
def m_dur_sub(ex, st, args, dty, canon):
    a = dur_total_nanos(ex, st, args[0])
    b = dur_total_nanos(ex, st, args[1])
    raise Fork([(a >= b, lambda s: dur_from_total_nanos(a - b)),
                (a < b, _panic('overflow when subtracting durations'))])


def _time_add(ex, st, t, d, sign, ty):
    """checked add/sub of Duration to a Timespec: (fits cond, value)"""
    ts = time_total_nanos(ex, st, t)
    dn = dur_total_nanos(ex, st, d)
    ds, _ = dur_parts(ex, st, d)
    r = ts + dn if sign > 0 else ts - dn
    sec, nsec = ex.divmod_const(r, NANOS)   # floor division: nsec stays in [0, 1e9)
    # std: secs = self.tv_sec.checked_add_unsigned(other.as_secs())?  (then nanos carry, checked_add(1))
    fits = z3.And(sec >= I64_MIN, sec <= I64_MAX)
    if sign > 0:
        s0, n0 = time_parts(ex, st, t)
        # checked_add_unsigned of the whole seconds must not overflow either (it cannot be rescued by the carry)
        fits = z3.And(fits, s0 + ds <= I64_MAX)
    else:
        s0, n0 = time_parts(ex, st, t)
        fits = z3.And(fits, s0 - ds >= I64_MIN)
    return fits, mk_time(sec, nsec, ty)


def _time_ty(canon):
    return 'Instant' if 'Instant' in canon[0] else 'SystemTime'


@model('SystemTime::checked_add', 'Instant::checked_add')
def m_time_checked_add(ex, st, args, dty, canon):
    fits, v = _time_add(ex, st, args[0], args[1], +1, _time_ty(canon))
    return sym_enum(b2d(fits, 1, 0), {1: [v], 0: []}, 'Option')


@model('SystemTime::checked_sub', 'Instant::checked_sub')
def m_time_checked_sub(ex, st, args, dty, canon):
    fits, v = _time_add(ex, st, args[0], args[1], -1, _time_ty(canon))
    return sym_enum(b2d(fits, 1, 0), {1: [v], 0: []}, 'Option')


@model('<SystemTime as Add>::add', '<Instant as Add>::add')
def m_time_add(ex, st, args, dty, canon):
    fits, v = _time_add(ex, st, args[0], args[1], +1, _time_ty(canon))
    raise Fork([(fits, lambda s: v), (z3.Not(fits), _panic('overflow when adding duration to instant'))])


@model('<SystemTime as Sub>::sub', '<Instant as Sub>::sub')
def m_time_sub(ex, st, args, dty, canon):
    fits, v = _time_add(ex, st, args[0], args[1], -1, _time_ty(canon))
    raise Fork([(fits, lambda s: v), (z3.Not(fits), _panic('overflow when subtracting duration from instant'))])


@model('SystemTime::duration_since')
def m_st_duration_since(ex, st, args, dty, canon):
    a = time_total_nanos(ex, st, args[0])
    b = time_total_nanos(ex, st, args[1])
    return sym_enum(b2d(a >= b, 0, 1), {0: [dur_from_total_nanos(a - b)],
                                        1: [Tree({0: dur_from_total_nanos(b - a)}, None, 'SystemTimeError')]}, 'Result')


@model('SystemTimeError::duration')
def m_ste_duration(ex, st, args, dty, canon):
    e = deref_all(ex, st, args[0])
    return ex.child(st, e, 0, 'Duration')


@model('Instant::checked_duration_since')
def m_inst_cds(ex, st, args, dty, canon):
    a = time_total_nanos(ex, st, args[0])
    b = time_total_nanos(ex, st, args[1])
    return sym_enum(b2d(a >= b, 1, 0), {1: [dur_from_total_nanos(a - b)], 0: []}, 'Option')


@model('Instant::duration_since', 'Instant::saturating_duration_since')
def m_inst_ds(ex, st, args, dty, canon):
    a = time_total_nanos(ex, st, args[0])
    b = time_total_nanos(ex, st, args[1])
    d = z3.If(a >= b, a - b, 0)
    return dur_from_total_nanos(d)


def _time_cmp(op):
    def f(ex, st, args, dty, canon):
        a = time_total_nanos(ex, st, args[0])
        b = time_total_nanos(ex, st, args[1])
        return Sc({'ge': a >= b, 'gt': a > b, 'le': a <= b, 'lt': a < b, 'eq': a == b, 'ne': a != b}[op], 'bool')
    return f


for _ty in ('SystemTime', 'Instant'):
    for _op in ('ge', 'gt', 'le', 'lt'):
        MODELS['<%s as PartialOrd>::%s' % (_ty, _op)] = _time_cmp(_op)
    for _op in ('eq', 'ne'):
        MODELS['<%s as PartialEq>::%s' % (_ty, _op)] = _time_cmp(_op)


def _dur_cmp(op):
    def f(ex, st, args, dty, canon):
        a = dur_total_nanos(ex, st, args[0])
        b = dur_total_nanos(ex, st, args[1])
        return Sc({'ge': a >= b, 'gt': a > b, 'le': a <= b, 'lt': a < b, 'eq': a == b, 'ne': a != b}[op], 'bool')
    return f


for _op in ('ge', 'gt', 'le', 'lt'):
    MODELS['<Duration as PartialOrd>::%s' % _op] = _dur_cmp(_op)
for _op in ('eq', 'ne'):
    MODELS['<Duration as PartialEq>::%s' % _op] = _dur_cmp(_op)


# ------------------------------------------------------------------ integers

@pattern(r'^<(i|u)(8|16|32|64|128|size) as TryFrom<(i|u)(8|16|32|64|128|size)>>::try_from$')
def m_try_from(ex, st, args, dty, canon):
    m = re.match(r'^<([iu]\w+) as TryFrom', canon[4])
    to = m.group(1)
    lo, hi = int_range(to)
    x = args[0].t
    fits = z3.And(x >= lo, x <= hi)
    return sym_enum(b2d(fits, 0, 1), {0: [Sc(x, to)], 1: [UNIT]}, 'Result')


@pattern(r'^<(i|u)(8|16|32|64|128|size) as TryInto<(i|u)(8|16|32|64|128|size)>>::try_into$')
def m_try_into(ex, st, args, dty, canon):
    m = re.match(r'^<[iu]\w+ as TryInto<([iu]\w+)>>', canon[4])
    to = m.group(1)
    lo, hi = int_range(to)
    x = args[0].t
    fits = z3.And(x >= lo, x <= hi)
    return sym_enum(b2d(fits, 0, 1), {0: [Sc(x, to)], 1: [UNIT]}, 'Result')


@pattern(r'^core::num::<impl (i|u)(8|16|32|64|128|size)>::checked_neg$')
def m_checked_neg(ex, st, args, dty, canon):
    ty = re.search(r'<impl (\w+)>', canon[4]).group(1)
    lo, hi = int_range(ty)
    x = args[0].t
    fits = z3.And(-x >= lo, -x <= hi)
    return sym_enum(b2d(fits, 1, 0), {1: [Sc(-x, ty)], 0: []}, 'Option')


@pattern(r'^core::num::<impl (i|u)(8|16|32|64|128|size)>::wrapping_neg$')
def m_wrapping_neg(ex, st, args, dty, canon):
    ty = re.search(r'<impl (\w+)>', canon[4]).group(1)
    return Sc(ex.wrap(-args[0].t, ty), ty)


@pattern(r'^core::num::<impl (i|u)(8|16|32|64|128|size)>::(saturating_add|saturating_sub|wrapping_add|wrapping_sub|checked_add|checked_sub|checked_mul)$')
def m_int_arith(ex, st, args, dty, canon):
    m = re.search(r'<impl (\w+)>::(\w+)$', canon[4])
    ty, op = m.group(1), m.group(2)
    lo, hi = int_range(ty)
    x, y = args[0].t, args[1].t
    r = x + y if op.endswith('add') else x - y if op.endswith('sub') else x * y
    if op.startswith('saturating'):
        return Sc(z3.If(r > hi, hi, z3.If(r < lo, lo, r)), ty)
    if op.startswith('wrapping'):
        return Sc(ex.wrap(r, ty), ty)
    fits = z3.And(r >= lo, r <= hi)
    return sym_enum(b2d(fits, 1, 0), {1: [Sc(r, ty)], 0: []}, 'Option')


INTS = r'(i|u)(8|16|32|64|128|size)'


@pattern(r'^core::num::<impl %s>::(saturating_mul|wrapping_mul|checked_div|checked_rem|checked_neg_never|abs|unsigned_abs|abs_diff|signum|is_negative|is_positive|pow|checked_pow|saturating_pow|overflowing_add|overflowing_sub|overflowing_mul|rem_euclid|div_euclid)$' % INTS)
def m_int_arith2(ex, st, args, dty, canon):
    m = re.search(r'<impl (\w+)>::(\w+)$', canon[4])
    ty, op = m.group(1), m.group(2)
    lo, hi = int_range(ty)
    x = args[0].t
    y = args[1].t if len(args) > 1 else None

    def sat(r):
        return z3.If(r > hi, hi, z3.If(r < lo, lo, r))

    def opt(fits, r):
        return sym_enum(b2d(fits, 1, 0), {1: [Sc(r, ty)], 0: []}, 'Option')
    if op == 'saturating_mul':
        return Sc(sat(x * y), ty)
    if op == 'wrapping_mul':
        return Sc(ex.wrap(x * y, ty), ty)
    if op in ('checked_div', 'checked_rem', 'div_euclid', 'rem_euclid'):
        # Rust truncates towards zero; z3 Int division floors for positive divisors: go through magnitudes
        ax, ay = z3.If(x >= 0, x, -x), z3.If(y >= 0, y, -y)
        q0, r0 = ex.idiv(ax, ay), ex.imod(ax, ay)
        q = z3.If((x >= 0) == (y >= 0), q0, -q0)
        r = z3.If(x >= 0, r0, -r0)
        if op == 'checked_div':
            return opt(z3.And(y != 0, q >= lo, q <= hi), q)
        if op == 'checked_rem':
            return opt(z3.And(y != 0, z3.Not(z3.And(x == lo, y == -1)) if lo < 0 else z3.BoolVal(True)), r)
        re_ = z3.If(r < 0, r + ay, r)
        if op == 'rem_euclid':
            return Sc(re_, ty)
        return Sc(z3.If(r < 0, z3.If(y > 0, q - 1, q + 1), q), ty)
    if op == 'abs':
        return Sc(z3.If(x >= 0, x, -x), ty)       # overflow on MIN panics in debug; outside (checked by callers)
    if op == 'unsigned_abs':
        return Sc(z3.If(x >= 0, x, -x), 'u' + ty[1:])
    if op == 'abs_diff':
        return Sc(z3.If(x >= y, x - y, y - x), 'u' + ty[1:] if ty[0] == 'i' else ty)
    if op == 'signum':
        return Sc(z3.If(x > 0, I(1), z3.If(x < 0, I(-1), I(0))), ty)
    if op == 'is_negative':
        return Sc(x < 0, 'bool')
    if op == 'is_positive':
        return Sc(x > 0, 'bool')
    if op in ('pow', 'checked_pow', 'saturating_pow'):
        e = z3.simplify(y)
        if not z3.is_int_value(e) or e.as_long() > 64:
            raise Inconclusive('%s with a symbolic exponent' % op)
        r = I(1)
        for _ in range(e.as_long()):
            r = r * x
        if op == 'pow':
            return Sc(r, ty)
        if op == 'saturating_pow':
            return Sc(sat(r), ty)
        return opt(z3.And(r >= lo, r <= hi), r)
    if op.startswith('overflowing_'):
        r = x + y if op.endswith('add') else x - y if op.endswith('sub') else x * y
        return Tree({0: Sc(ex.wrap(r, ty), ty), 1: Sc(z3.Or(r < lo, r > hi), 'bool')}, None, None)
    raise Inconclusive('integer method %s' % op)


@pattern(r'^<%s as Ord>::(min|max|clamp)$|^<%s as Ord>::(min|max|clamp)$' % (INTS, r'(std::time::)?Duration'))
def m_ord_minmax(ex, st, args, dty, canon):
    op = canon[3]
    if 'Duration' in canon[4]:
        ts = [dur_total_nanos(ex, st, a) for a in args]
        if op == 'min':
            r = z3.If(ts[0] <= ts[1], ts[0], ts[1])
        elif op == 'max':
            r = z3.If(ts[1] >= ts[0], ts[1], ts[0])
        else:
            r = z3.If(ts[0] < ts[1], ts[1], z3.If(ts[0] > ts[2], ts[2], ts[0]))
        return dur_from_total_nanos(r, ex)
    a = args[0]
    if op == 'min':
        return Sc(z3.If(a.t <= args[1].t, a.t, args[1].t), a.ty)
    if op == 'max':
        return Sc(z3.If(args[1].t >= a.t, args[1].t, a.t), a.ty)
    return Sc(z3.If(a.t < args[1].t, args[1].t, z3.If(a.t > args[2].t, args[2].t, a.t)), a.ty)


@pattern(r'^<%s as Ord>::cmp$|^<%s as PartialOrd>::partial_cmp$' % (INTS, INTS))
def m_int_cmp(ex, st, args, dty, canon):
    a, b = deref_all(ex, st, args[0]), deref_all(ex, st, args[1])
    # Ordering: Less = -1, Equal = 0, Greater = 1
    d = z3.If(a.t < b.t, I(-1), z3.If(a.t == b.t, I(0), I(1)))
    o = Tree({'discr': Sc(d, 'i8')}, None, 'std::cmp::Ordering')
    return some(o) if canon[3] == 'partial_cmp' else o


@pattern(r'^(std::time::)?Duration::(saturating_sub|saturating_add|is_zero|as_secs_f64_never|subsec_millis|subsec_micros)$')
def m_dur_more(ex, st, args, dty, canon):
    op = canon[3]
    a = dur_total_nanos(ex, st, args[0])
    if op == 'is_zero':
        return Sc(a == 0, 'bool')
    if op in ('subsec_millis', 'subsec_micros'):
        s_, n_ = dur_parts(ex, st, args[0])
        return Sc(ex.idiv(n_, 1000000 if op == 'subsec_millis' else 1000), 'u32')
    b = dur_total_nanos(ex, st, args[1])
    if op == 'saturating_sub':
        return dur_from_total_nanos(z3.If(a >= b, a - b, I(0)), ex)
    mx = ((1 << 64) - 1) * NANOS + (NANOS - 1)
    return dur_from_total_nanos(z3.If(a + b > mx, I(mx), a + b), ex)


@model('std::cmp::min', 'min', 'cmp::min', '<u64 as Ord>::min')
def m_min(ex, st, args, dty, canon):
    a, b = args
    if not (isinstance(a, Sc) and isinstance(b, Sc)):
        ta, tb = dur_total_nanos(ex, st, a), dur_total_nanos(ex, st, b)
        return dur_from_total_nanos(z3.If(ta <= tb, ta, tb), ex)
    return Sc(z3.If(a.t <= b.t, a.t, b.t), a.ty)


@model('std::cmp::max', 'max', 'cmp::max', '<u64 as Ord>::max')
def m_max(ex, st, args, dty, canon):
    a, b = args
    if not (isinstance(a, Sc) and isinstance(b, Sc)):
        ta, tb = dur_total_nanos(ex, st, a), dur_total_nanos(ex, st, b)
        return dur_from_total_nanos(z3.If(tb >= ta, tb, ta), ex)
    return Sc(z3.If(a.t >= b.t, a.t, b.t), a.ty)


@model('rand::random', 'random')
def m_random(ex, st, args, dty, canon):
    nm = 'ev%d' % len(st.trace)
    st.trace.append(Event('env', 'rand::random', (), nm, extra=dty))
    return ex.mk_sym(dty, nm)


# ------------------------------------------------------------------ Option / Result plumbing

def _opt_variant_cases(ex, st, v, ty):
    return enum_cases(ex, st, v, 2, ty)


@pattern(r'^<(std::)?(result::)?Result<.*> as Try>::branch$')
def m_result_branch(ex, st, args, dty, canon):
    v = args[0]
    d = ex.discr_of(st, v).t
    # Continue(val) / Break(Err(e)); discriminants coincide (Ok=0 -> Continue=0, Err=1 -> Break=1)
    return sym_enum(d, {0: [payload(ex, st, v, 0, 0)], 1: [err(payload(ex, st, v, 1, 0))]}, 'ControlFlow')


@pattern(r'^<(std::)?(option::)?Option<.*> as Try>::branch$')
def m_option_branch(ex, st, args, dty, canon):
    v = args[0]
    d = ex.discr_of(st, v).t
    return sym_enum(z3.If(d == 1, I(0), I(1)), {0: [payload(ex, st, v, 1, 0)], 1: [none()]}, 'ControlFlow')


@pattern(r'^<(std::)?(option::)?Option<.*> as FromResidual<.*>>::from_residual$')
def m_option_from_residual(ex, st, args, dty, canon):
    return none()


@pattern(r'^(std::)?(result::)?Result::<.*>::ok$|^Result::ok$')
def m_result_ok(ex, st, args, dty, canon):
    v = args[0]
    d = ex.discr_of(st, v).t
    return sym_enum(z3.If(d == 0, I(1), I(0)), {1: [payload(ex, st, v, 0, 0, inner_ty(dty))], 0: []}, 'Option')


@pattern(r'^(std::)?(result::)?Result::<.*>::(is_ok|is_err)$')
def m_result_is_ok(ex, st, args, dty, canon):
    v = deref_all(ex, st, args[0])
    d = ex.discr_of(st, v)
    return Sc(d.t == (0 if canon[3] == 'is_ok' else 1), 'bool')


@pattern(r'^(std::)?(option::)?Option::<.*>::(is_some|is_none)$')
def m_option_is_some(ex, st, args, dty, canon):
    v = deref_all(ex, st, args[0])
    d = ex.discr_of(st, v)
    return Sc(d.t == (1 if canon[3] == 'is_some' else 0), 'bool')


@pattern(r'^(std::)?(option::)?Option::<.*>::as_ref$|^(std::)?(option::)?Option::<.*>::as_mut$')
def m_option_as_ref(ex, st, args, dty, canon):
    p = args[0]
    if not isinstance(p, Ptr):
        raise Inconclusive('Option::as_ref on non-pointer')
    v = deref(ex, st, p)
    d = ex.discr_of(st, v).t
    return sym_enum(d, {1: [Ptr(p.cell, p.path + (('v', 1), 0))], 0: []}, 'Option')


@pattern(r'^(std::)?(option::)?Option::<.*>::unwrap_or$')
def m_option_unwrap_or(ex, st, args, dty, canon):
    v = args[0]
    pv = payload(ex, st, v, 1, 0, dty)
    if isinstance(pv, Sc) and isinstance(args[1], Sc):
        d = ex.discr_of(st, v).t
        return Sc(z3.If(d == 1, pv.t, args[1].t), pv.ty)
    cases = enum_cases(ex, st, v, 2)

    def f(s, i):
        return payload(ex, s, v, 1, 0, dty) if i == 1 else args[1]
    fork_on(cases, f)
    return f(st, cases[0][1])


@pattern(r'^(std::)?(option::)?Option::<.*>::(unwrap|expect)$')
def m_option_unwrap(ex, st, args, dty, canon):
    v = args[0]
    cases = enum_cases(ex, st, v, 2)

    def f(s, i):
        if i == 1:
            return payload(ex, s, v, 1, 0, dty)
        s.status = 'panic'
        s.info = 'called Option::%s on a None value' % canon[3]
        return NOTHING
    fork_on(cases, f)
    return f(st, cases[0][1])


@pattern(r'^(std::)?(result::)?Result::<.*>::(unwrap|expect)$')
def m_result_unwrap(ex, st, args, dty, canon):
    v = args[0]
    cases = enum_cases(ex, st, v, 2)

    def f(s, i):
        if i == 0:
            return payload(ex, s, v, 0, 0, dty)
        s.status = 'panic'
        s.info = 'called Result::%s on an Err value' % canon[3]
        return NOTHING
    fork_on(cases, f)
    return f(st, cases[0][1])


@pattern(r'^(std::)?(option::)?Option::<.*>::(get_or_insert|insert|replace)$')
def m_option_insert(ex, st, args, dty, canon):
    p = args[0]
    if not isinstance(p, Ptr):
        raise Inconclusive('Option::%s on non-pointer' % canon[3])
    v = deref(ex, st, p)
    path = [(k, None) for k in p.path]
    inner = Ptr(p.cell, p.path + (('v', 1), 0))
    op = canon[3]
    if op == 'insert':
        ex.store(st, p.cell, path, some(args[1]))
        return inner
    if op == 'replace':
        ex.store(st, p.cell, path, some(args[1]))
        return v
    cases = enum_cases(ex, st, v, 2)

    def f(s, i):
        if i == 0:
            ex.store(s, p.cell, path, some(args[1]))
        return inner
    fork_on(cases, f)
    return f(st, cases[0][1])


@pattern(r'^(std::)?(option::)?Option::<.*>::(take)$')
def m_option_take(ex, st, args, dty, canon):
    p = args[0]
    v = deref(ex, st, p)
    ex.store(st, p.cell, [(k, None) for k in p.path], none())
    return v


def call_fnlike(ex, st, f, argvals, cont, dty=None):
    """call closure / fn item f with argvals; cont(ex, st, value) receives the result.  Returns PUSHED when
    a frame was pushed, else calls cont immediately and returns its value."""
    fv = deref_all(ex, st, f) if isinstance(f, Ptr) else f
    if isinstance(fv, Obj) and fv.kind == 'fnitem':
        canon = ex.canon_call(fv.data)
        m = ex.models.get(canon[0])
        if canon[3] in ('from', 'into') and canon[2] and canon[1]:
            # conversions with a body in the crate are executed (the generic From/Into model rewrites the
            # pending call site and must not be used from inside another model)
            import smodels
            ta = type_args(canon[2])
            d0 = smodels.find_from(ex, canon[1], ta[0]) if ta and canon[3] == 'from' else None
            if d0 is not None:
                ex.new_frame(st, d0, list(argvals), on_return=cont)
                return PUSHED
        if m is None:
            for rx, fnm in ex.model_patterns:
                if rx.search(canon[4]) or rx.search(canon[0]):
                    m = fnm
                    break
        if m is not None:
            # models may fork: let Fork propagate with the continuation composed
            try:
                r = m(ex, st, argvals, dty, canon)
            except Fork as fk:
                raise Fork([(c, (lambda k: (lambda s: cont(ex, s, k(s))))(k)) for c, k in fk.alts])
            return cont(ex, st, r)
        d = ex.find_def(canon[0], canon[1], canon[2], len(argvals))
        if d is None and canon[3] == 'from' and canon[2] and canon[1]:
            import smodels
            ta = type_args(canon[2])
            d = smodels.find_from(ex, canon[1], ta[0]) if ta else None
        if d is not None:
            ex.new_frame(st, d, list(argvals), on_return=cont)
            return PUSHED
        # constructor function item (e.g. `ResponseParseError::Json`, `Some`)
        segs = ex._segments(ex.strip_generics(fv.data))
        if len(segs) >= 2:
            idx = ex.src.variant_index(re.sub(r'<.*>$', '', segs[-2]), segs[-1])
            if idx is not None:
                return cont(ex, st, mk_enum(ex.src.variant_discr(re.sub(r'<.*>$', '', segs[-2]), segs[-1]), idx,
                                            list(argvals)))
        raise Inconclusive('call of unknown fn item %s' % fv.data)
    ex.invoke_closure(st, f, argvals, cont)
    return PUSHED


def _with_dest(ex, st, canon_ret):
    pass


def closure_model(name_rx, ncases, on_case):
    """helper to define Option/Result combinators taking a closure.
    on_case(ex, st, v, idx, f, dty) -> ('val', value) | ('call', [args], post(value)->value)"""
    @pattern(name_rx)
    def m(ex, st, args, dty, canon):
        v = args[0]
        f = args[1]
        cases = enum_cases(ex, st, v, ncases)
        fr = st.frames[-1]

        def run(s, i):
            act = on_case(ex, s, v, i, f, dty)
            if act[0] == 'val':
                return act[1]
            _, cargs, post = act
            # the call terminator's destination/target are still those of the current frame's pending call:
            caller = s.frames[-1]
            term = caller.fn.blocks[caller.bb].term
            dcell, dpath, _ = ex.resolve(s, caller, term.place)

            def cont(ex2, s2, value):
                r = post(s2, value)
                ex2.store(s2, dcell, dpath, r)
                c2 = s2.frames[-1]
                c2.bb, c2.idx = term.target, 0
                return NOTHING
            r = call_fnlike(ex, s, f, cargs, cont, None)
            return NOTHING if r is PUSHED else r
        if len(cases) == 1 and cases[0][0] is None:
            return run(st, cases[0][1])
        raise Fork([(c, (lambda i: (lambda s: run(s, i)))(i)) for c, i in cases])
    return m


closure_model(r'^(std::)?(option::)?Option::<.*>::and_then(::<.*>)?$', 2,
              lambda ex, st, v, i, f, dty: ('call', [payload(ex, st, v, 1, 0)], lambda s, r: r) if i == 1 else ('val', none()))
closure_model(r'^(std::)?(option::)?Option::<.*>::map(::<.*>)?$', 2,
              lambda ex, st, v, i, f, dty: ('call', [payload(ex, st, v, 1, 0)], lambda s, r: some(r)) if i == 1 else ('val', none()))
closure_model(r'^(std::)?(option::)?Option::<.*>::ok_or_else(::<.*>)?$', 2,
              lambda ex, st, v, i, f, dty: ('val', ok(payload(ex, st, v, 1, 0))) if i == 1 else ('call', [], lambda s, r: err(r)))
closure_model(r'^(std::)?(option::)?Option::<.*>::unwrap_or_else(::<.*>)?$', 2,
              lambda ex, st, v, i, f, dty: ('val', payload(ex, st, v, 1, 0)) if i == 1 else ('call', [], lambda s, r: r))
closure_model(r'^(std::)?(result::)?Result::<.*>::map_err(::<.*>)?$', 2,
              lambda ex, st, v, i, f, dty: ('val', ok(payload(ex, st, v, 0, 0))) if i == 0 else ('call', [payload(ex, st, v, 1, 0)], lambda s, r: err(r)))
closure_model(r'^(std::)?(result::)?Result::<.*>::map(::<.*>)?$', 2,
              lambda ex, st, v, i, f, dty: ('call', [payload(ex, st, v, 0, 0)], lambda s, r: ok(r)) if i == 0 else ('val', err(payload(ex, st, v, 1, 0))))
closure_model(r'^(std::)?(result::)?Result::<.*>::and_then(::<.*>)?$', 2,
              lambda ex, st, v, i, f, dty: ('call', [payload(ex, st, v, 0, 0)], lambda s, r: r) if i == 0 else ('val', err(payload(ex, st, v, 1, 0))))


def _tmp_ref(ex, st, v):
    st.nfid += 1
    cell = (st.nfid, 'tmp')
    st.cells[cell] = v
    return Ptr(cell, ())


def _bool_to_opt(ex, st, keep, v):
    """Some(v) if keep else None, for a Bool-valued Sc `keep`"""
    return sym_enum(z3.If(keep.t, I(1), I(0)), {1: [v], 0: []}, 'Option')


closure_model(r'^(std::)?(option::)?Option::<.*>::filter(::<.*>)?$', 2,
              lambda ex, st, v, i, f, dty: (lambda pv: ('call', [_tmp_ref(ex, st, pv)], lambda s, r: _bool_to_opt(ex, s, r, pv)))(payload(ex, st, v, 1, 0, inner_ty(dty))) if i == 1 else ('val', none()))
closure_model(r'^(std::)?(option::)?Option::<.*>::(is_some_and)(::<.*>)?$', 2,
              lambda ex, st, v, i, f, dty: ('call', [payload(ex, st, v, 1, 0)], lambda s, r: r) if i == 1 else ('val', Sc(z3.BoolVal(False), 'bool')))
closure_model(r'^(std::)?(option::)?Option::<.*>::(is_none_or)(::<.*>)?$', 2,
              lambda ex, st, v, i, f, dty: ('call', [payload(ex, st, v, 1, 0)], lambda s, r: r) if i == 1 else ('val', Sc(z3.BoolVal(True), 'bool')))
closure_model(r'^(std::)?(option::)?Option::<.*>::or_else(::<.*>)?$', 2,
              lambda ex, st, v, i, f, dty: ('val', some(payload(ex, st, v, 1, 0))) if i == 1 else ('call', [], lambda s, r: r))
closure_model(r'^(std::)?(result::)?Result::<.*>::unwrap_or_else(::<.*>)?$', 2,
              lambda ex, st, v, i, f, dty: ('val', payload(ex, st, v, 0, 0)) if i == 0 else ('call', [payload(ex, st, v, 1, 0)], lambda s, r: r))
closure_model(r'^(std::)?(result::)?Result::<.*>::or_else(::<.*>)?$', 2,
              lambda ex, st, v, i, f, dty: ('val', ok(payload(ex, st, v, 0, 0))) if i == 0 else ('call', [payload(ex, st, v, 1, 0)], lambda s, r: r))
closure_model(r'^(std::)?(result::)?Result::<.*>::(is_ok_and)(::<.*>)?$', 2,
              lambda ex, st, v, i, f, dty: ('call', [payload(ex, st, v, 0, 0)], lambda s, r: r) if i == 0 else ('val', Sc(z3.BoolVal(False), 'bool')))
closure_model(r'^(std::)?(result::)?Result::<.*>::(is_err_and)(::<.*>)?$', 2,
              lambda ex, st, v, i, f, dty: ('call', [payload(ex, st, v, 1, 0)], lambda s, r: r) if i == 1 else ('val', Sc(z3.BoolVal(False), 'bool')))


@pattern(r'^(core::)?bool::<impl bool>::then(::<.*>)?$|^<impl bool>::then(::<.*>)?$|^bool::then(::<.*>)?$')
def m_bool_then(ex, st, args, dty, canon):
    """`cond.then(f)`: Some(f()) if cond else None (f is called only when cond holds)"""
    c = z3.simplify(args[0].t)
    caller = st.frames[-1]
    term = caller.fn.blocks[caller.bb].term
    dcell, dpath, _ = ex.resolve(st, caller, term.place)

    def run_true(s):
        def cont(ex2, s2, value):
            ex2.store(s2, dcell, dpath, some(value))
            c2 = s2.frames[-1]
            c2.bb, c2.idx = term.target, 0
            return NOTHING
        r = call_fnlike(ex, s, args[1], [], cont, None)
        return NOTHING if r is PUSHED else r
    if z3.is_true(c):
        return run_true(st)
    if z3.is_false(c):
        return none()
    raise Fork([(c, run_true), (z3.Not(c), lambda s: none())])


def _two_closure_model(name_rx, some_idx):
    """map_or(default, f) / map_or_else(dflt_fn, f): the closure is the third argument"""
    @pattern(name_rx)
    def m(ex, st, args, dty, canon):
        v, dflt, f = args[0], args[1], args[2]
        lazy = canon[3].endswith('_else')
        cases = enum_cases(ex, st, v, 2)

        def run(s, i):
            caller = s.frames[-1]
            term = caller.fn.blocks[caller.bb].term
            dcell, dpath, _ = ex.resolve(s, caller, term.place)

            def cont(ex2, s2, value):
                ex2.store(s2, dcell, dpath, value)
                c2 = s2.frames[-1]
                c2.bb, c2.idx = term.target, 0
                return NOTHING
            if i == some_idx:
                r = call_fnlike(ex, s, f, [payload(ex, s, v, some_idx, 0)], cont, None)
            elif lazy:
                r = call_fnlike(ex, s, dflt, [] if some_idx == 1 else [payload(ex, s, v, 1, 0)], cont, None)
            else:
                return dflt
            return NOTHING if r is PUSHED else r
        if len(cases) == 1 and cases[0][0] is None:
            return run(st, cases[0][1])
        raise Fork([(c, (lambda i: (lambda s: run(s, i)))(i)) for c, i in cases])
    return m


_two_closure_model(r'^(std::)?(option::)?Option::<.*>::(map_or|map_or_else)(::<.*>)?$', 1)
_two_closure_model(r'^(std::)?(result::)?Result::<.*>::(map_or|map_or_else)(::<.*>)?$', 0)


@pattern(r'^(std::)?(option::)?Option::<(std::)?(result::)?Result<.*>>::transpose$')
def m_option_transpose(ex, st, args, dty, canon):
    """Option<Result<T,E>> -> Result<Option<T>,E>"""
    v = args[0]
    d = ex.discr_of(st, v).t
    inner = payload(ex, st, v, 1, 0)
    di = ex.discr_of(st, inner).t
    okv = sym_enum(d, {1: [payload(ex, st, inner, 0, 0)], 0: []}, 'Option')
    return sym_enum(z3.If(z3.And(d == 1, di == 1), I(1), I(0)), {0: [okv], 1: [payload(ex, st, inner, 1, 0)]}, 'Result')


@pattern(r'^(std::)?(result::)?Result::<(std::)?(option::)?Option<.*>, .*>::transpose$')
def m_result_transpose(ex, st, args, dty, canon):
    """Result<Option<T>,E> -> Option<Result<T,E>>"""
    v = args[0]
    d = ex.discr_of(st, v).t
    inner = payload(ex, st, v, 0, 0)
    di = ex.discr_of(st, inner).t
    r = sym_enum(d, {0: [payload(ex, st, inner, 1, 0)], 1: [payload(ex, st, v, 1, 0)]}, 'Result')
    return sym_enum(z3.If(z3.And(d == 0, di == 0), I(0), I(1)), {1: [r], 0: []}, 'Option')


@pattern(r'^(std::)?(option::)?Option::<.*>::(or)$')
def m_option_or(ex, st, args, dty, canon):
    v = args[0]
    cases = enum_cases(ex, st, v, 2)

    def f(s, i):
        return v if i == 1 else args[1]
    fork_on(cases, f)
    return f(st, cases[0][1])


@pattern(r'^(std::)?(option::)?Option::<.*>::(and)(::<.*>)?$')
def m_option_and(ex, st, args, dty, canon):
    v = args[0]
    cases = enum_cases(ex, st, v, 2)

    def f(s, i):
        return args[1] if i == 1 else none()
    fork_on(cases, f)
    return f(st, cases[0][1])


@pattern(r'^(std::)?(option::)?Option::<.*>::(zip)(::<.*>)?$')
def m_option_zip(ex, st, args, dty, canon):
    a, b = args[0], args[1]
    da, db = ex.discr_of(st, a).t, ex.discr_of(st, b).t
    tup = Tree({0: payload(ex, st, a, 1, 0), 1: payload(ex, st, b, 1, 0)}, None, None)
    return sym_enum(z3.If(z3.And(da == 1, db == 1), I(1), I(0)), {1: [tup], 0: []}, 'Option')


@pattern(r'^(std::)?(option::)?Option::<(std::)?(option::)?Option<.*>>::flatten$')
def m_option_flatten(ex, st, args, dty, canon):
    v = args[0]
    d = ex.discr_of(st, v).t
    inner = payload(ex, st, v, 1, 0)
    di = ex.discr_of(st, inner).t
    return sym_enum(z3.If(z3.And(d == 1, di == 1), I(1), I(0)), {1: [payload(ex, st, inner, 1, 0)], 0: []}, 'Option')


@pattern(r'^(std::)?(option::)?Option::<&(mut )?.*>::(copied|cloned)$')
def m_option_copied(ex, st, args, dty, canon):
    v = args[0]
    d = ex.discr_of(st, v).t
    cases = enum_cases(ex, st, v, 2)

    def f(s, i):
        if i == 1:
            return some(deref(ex, s, payload(ex, s, v, 1, 0)))
        return none()
    fork_on(cases, f)
    return f(st, cases[0][1])


INT_BITS_ = ('u8', 'u16', 'u32', 'u64', 'u128', 'usize', 'i8', 'i16', 'i32', 'i64', 'i128', 'isize')


def default_value(ex, ty):
    ty = (ty or '').strip()
    if ty in INT_BITS_:
        return Sc(I(0), ty)
    if ty == 'bool':
        return Sc(z3.BoolVal(False), 'bool')
    if ty.endswith('Duration'):
        return mk_dur(I(0), I(0))
    if ty in ('String', 'std::string::String', '&str'):
        return Sc(z3.StringVal(''), 'str')
    if ty.startswith(('Option<', 'std::option::Option<')):
        return none()
    if ty == '()':
        return UNIT
    raise Inconclusive('default value of type %s' % ty)


@pattern(r'^(std::)?(result::)?Result::<.*>::unwrap_or_default$|^(std::)?(option::)?Option::<.*>::unwrap_or_default$')
def m_unwrap_or_default_any(ex, st, args, dty, canon):
    v = args[0]
    is_res = 'Result::<' in canon[4]
    good = 0 if is_res else 1
    dflt = default_value(ex, dty)
    pv = payload(ex, st, v, good, 0, dty)
    if isinstance(pv, Sc) and isinstance(dflt, Sc):
        d = ex.discr_of(st, v).t
        return Sc(z3.If(d == good, pv.t, dflt.t), pv.ty)
    cases = enum_cases(ex, st, v, 2)

    def f(s, i):
        return payload(ex, s, v, good, 0, dty) if i == good else dflt
    fork_on(cases, f)
    return f(st, cases[0][1])


@pattern(r'^(std::)?(option::)?Option::<(i|u)(8|16|32|64|128|size)>::unwrap_or_default$')
def m_option_unwrap_or_default(ex, st, args, dty, canon):
    v = args[0]
    d = ex.discr_of(st, v).t
    pv = payload(ex, st, v, 1, 0, dty)
    return Sc(z3.If(d == 1, pv.t, I(0)), pv.ty)


@pattern(r'^(std::)?(result::)?Result::<.*>::unwrap_or$')
def m_result_unwrap_or(ex, st, args, dty, canon):
    v = args[0]
    pv = payload(ex, st, v, 0, 0, dty)
    if isinstance(pv, Sc) and isinstance(args[1], Sc):
        d = ex.discr_of(st, v).t
        return Sc(z3.If(d == 0, pv.t, args[1].t), pv.ty)
    cases = enum_cases(ex, st, v, 2)

    def f(s, i):
        return payload(ex, s, v, 0, 0, dty) if i == 0 else args[1]
    fork_on(cases, f)
    return f(st, cases[0][1])


@pattern(r'^(std::)?(result::)?Result::<.*>::err$')
def m_result_err(ex, st, args, dty, canon):
    v = args[0]
    d = ex.discr_of(st, v).t
    return sym_enum(z3.If(d == 1, I(1), I(0)), {1: [payload(ex, st, v, 1, 0, inner_ty(dty))], 0: []}, 'Option')


@pattern(r'^(core::)?bool::<impl bool>::then_some(::<.*>)?$|^bool::then_some(::<.*>)?$')
def m_bool_then_some(ex, st, args, dty, canon):
    return _bool_to_opt(ex, st, args[0], args[1])


# identity conversions ------------------------------------------------------

@pattern(r'^<impl (::)?(core::convert::|std::convert::)?Into<(.*)> as Into<(.*)>>::into$')
def m_into_identity(ex, st, args, dty, canon):
    return args[0]


@pattern(r'^<.* as IntoFuture>::into_future$')
def m_into_future(ex, st, args, dty, canon):
    return args[0]


@pattern(r'^<(i|u)(8|16|32|64|128|size) as Default>::default$')
def m_int_default(ex, st, args, dty, canon):
    ty = re.match(r'^<(\w+) as Default', canon[4]).group(1)
    return Sc(I(0), ty)


@model('<() as Default>::default')
def m_unit_default(ex, st, args, dty, canon):
    return UNIT


@model('<bool as Default>::default')
def m_bool_default(ex, st, args, dty, canon):
    return Sc(z3.BoolVal(False), 'bool')


@pattern(r'^(std::)?(result::)?Result::<(i|u)(8|16|32|64|128|size), .*>::unwrap_or_default$')
def m_result_unwrap_or_default(ex, st, args, dty, canon):
    v = args[0]
    d = ex.discr_of(st, v).t
    pv = payload(ex, st, v, 0, 0, dty)
    return Sc(z3.If(d == 0, pv.t, I(0)), pv.ty)


@pattern(r'_Optional<.*>>::into_value(::<.*>)?$|_Optional>::into_value$')
def m_typed_builder_into_value(ex, st, args, dty, canon):
    """typed-builder: `()` (field not set) -> default(), `(T,)` -> the value"""
    v = args[0]
    if isinstance(v, Tree) and (v.origin or '').startswith('uninit') and not v.f:
        v = UNIT        # zero-sized `()` markers are never assigned in MIR
    if isinstance(v, Tree) and v.origin is None:
        if 0 in v.f:
            return v.f[0]
        caller = st.frames[-1]
        term = caller.fn.blocks[caller.bb].term
        dcell, dpath, _ = ex.resolve(st, caller, term.place)

        def cont(ex2, s2, r):
            ex2.store(s2, dcell, dpath, r)
            c2 = s2.frames[-1]
            c2.bb, c2.idx = term.target, 0
            return NOTHING
        f = args[1]
        if isinstance(f, Tree) and f.meta is None:
            f = Tree(f.f, f.origin, f.ty, meta=('ret', dty))     # several default closures share one position
        r = call_fnlike(ex, st, f, [], cont)
        return NOTHING
    raise Inconclusive('typed-builder into_value on %r' % (v,))


@pattern(r'^(std::)?(option::)?Option::<.*>::ok_or(::<.*>)?$')
def m_option_ok_or(ex, st, args, dty, canon):
    v = args[0]
    d = ex.discr_of(st, v).t
    return sym_enum(z3.If(d == 1, I(0), I(1)), {0: [payload(ex, st, v, 1, 0)], 1: [args[1]]}, 'Result')
