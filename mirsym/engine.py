"""mirsym: bounded symbolic execution of rustc MIR (text dump) with z3.

Path-mode executor: depth-first enumeration of the feasible paths of a MIR body (and of
everything it calls that has a body in the dump), forking at `switchInt`/`assert` on symbolic
values, with environment calls recorded as trace events and unknown calls havocked.
"""
import re, sys, time, itertools
import z3
from mir import (load, parse_body, Place, Operand, Rvalue, Stmt, Term, MirSyntaxError, split_top,
                 match_close)
from srcinfo import SrcInfo, simple_name


class Inconclusive(Exception):
    """the executor met something it cannot interpret soundly; the run is INCONCLUSIVE (exit 2)"""


INT_BITS = {'u8': 8, 'u16': 16, 'u32': 32, 'u64': 64, 'u128': 128, 'usize': 64,
            'i8': 8, 'i16': 16, 'i32': 32, 'i64': 64, 'i128': 128, 'isize': 64, 'char': 32}


def int_range(ty):
    b = INT_BITS[ty]
    if ty[0] == 'i':
        return -(1 << (b - 1)), (1 << (b - 1)) - 1
    if ty == 'char':
        return 0, 0x10FFFF
    return 0, (1 << b) - 1


# ------------------------------------------------------------------ values

class Sc:
    """scalar: z3 Int (machine integer / discriminant), Bool, or String term"""
    __slots__ = ('t', 'ty')

    def __init__(self, t, ty):
        self.t = t
        self.ty = ty

    def __repr__(self):
        return 'Sc(%s:%s)' % (self.t, self.ty)


class Tree:
    """aggregate / enum / lazily materialised symbolic object.
    f: dict key -> value; key = int (field) | 'discr' | ('v', idx).
    origin: name prefix used to materialise missing children deterministically, or None."""
    __slots__ = ('f', 'origin', 'ty', 'meta')

    def __init__(self, f=None, origin=None, ty=None, meta=None):
        self.f = f if f is not None else {}
        self.origin = origin
        self.ty = ty
        self.meta = meta

    def __repr__(self):
        return 'Tree(%s origin=%s ty=%s)' % (self.f, self.origin, (self.ty or '')[:40])


class Ptr:
    __slots__ = ('cell', 'path')

    def __init__(self, cell, path=()):
        self.cell = cell
        self.path = tuple(path)

    def __repr__(self):
        return 'Ptr(%s%s)' % (self.cell, ''.join('.' + str(k) for k in self.path))


class Obj:
    """model-level object (immutable): kind + data"""
    __slots__ = ('kind', 'data', 'ty')

    def __init__(self, kind, data, ty=None):
        self.kind = kind
        self.data = data
        self.ty = ty

    def __repr__(self):
        return 'Obj(%s %r)' % (self.kind, self.data)


UNIT = Tree({}, None, '()')


def is_unit_ty(ty):
    return ty.strip() == '()'


# ------------------------------------------------------------------ type helpers

_ref_re = re.compile(r"^&\s*('[a-z_0-9]+\s+)?(mut\s+)?")


def strip_ref(ty):
    """&T / &mut T / *const T / *mut T -> T ; returns None if not a reference"""
    ty = ty.strip()
    m = _ref_re.match(ty)
    if m:
        return ty[m.end():].strip()
    if ty.startswith('*const '):
        return ty[7:].strip()
    if ty.startswith('*mut '):
        return ty[5:].strip()
    return None


def type_head(ty):
    """last path segment before generics: std::option::Option<X> -> Option"""
    ty = ty.strip()
    i = 0
    d = 0
    cut = len(ty)
    for i, ch in enumerate(ty):
        if ch == '<' and i > 0:
            cut = i
            break
        if ch in '([{':
            cut = i if i > 0 else cut
            break
    return ty[:cut].split('::')[-1].strip()


def type_args(ty):
    ty = ty.strip()
    i = ty.find('<')
    if i < 0 or not ty.endswith('>'):
        return []
    return [a for a in split_top(ty[i + 1:-1]) if not a.startswith("'")]


BOX_LIKE = ('Box', 'Rc', 'Arc')


def pointee(ty):
    """pointee type for reference-like types, else None"""
    r = strip_ref(ty)
    if r is not None:
        return r
    h = type_head(ty)
    if h in BOX_LIKE and not ty.strip().startswith(('(', '[', '{')):
        a = type_args(ty)
        if a:
            return a[0]
    return None


STRING_TYPES = ('String', 'std::string::String', 'alloc::string::String', 'str')


def is_string_ty(ty):
    t = ty.strip()
    r = strip_ref(t)
    if r is not None and r.strip() == 'str':
        return True
    return t in STRING_TYPES


# ------------------------------------------------------------------ state

class Frame:
    __slots__ = ('fn', 'fid', 'bb', 'idx', 'dest', 'ret_bb', 'on_return', 'visits', 'tag')

    def __init__(self, fn, fid, dest=None, ret_bb=None, on_return=None, tag=None):
        self.fn = fn
        self.fid = fid
        self.bb = 0
        self.idx = 0
        self.dest = dest            # (cell, typed path) in the caller, or None
        self.ret_bb = ret_bb
        self.on_return = on_return  # python callable(ex, st, value) -> None (model continuation)
        self.visits = {}
        self.tag = tag

    def clone(self):
        f = Frame(self.fn, self.fid, self.dest, self.ret_bb, self.on_return, self.tag)
        f.bb, f.idx = self.bb, self.idx
        f.visits = dict(self.visits)
        return f


class State:
    def __init__(self):
        self.cells = {}
        self.frames = []
        self.pc = []                # list of z3 Bool
        self.trace = []             # list of events (tuples)
        self.nfid = 0
        self.nfresh = 0
        self.status = 'running'     # running | done | panic | bound | unreachable | abort
        self.info = None
        self.result = None
        self.decisions = []
        self.notes = []             # havocs etc.
        self.extra = {}             # model-private immutable data (copied shallowly)
        self.stops = []             # join points of enclosing merge attempts: (fid, bb, depth, pc_len)

    def clone(self):
        s = State()
        s.cells = dict(self.cells)
        s.frames = [f.clone() for f in self.frames]
        s.pc = list(self.pc)
        s.trace = list(self.trace)
        s.nfid = self.nfid
        s.nfresh = self.nfresh
        s.status = self.status
        s.info = self.info
        s.result = self.result
        s.decisions = list(self.decisions)
        s.notes = list(self.notes)
        s.extra = dict(self.extra)
        s.stops = list(self.stops)
        return s

    def fresh(self, hint='h'):
        self.nfresh += 1
        return '%s!%d' % (hint, self.nfresh)


class Event:
    __slots__ = ('kind', 'name', 'args', 'out', 'extra')

    def __init__(self, kind, name, args=(), out=None, extra=None):
        self.kind = kind        # 'env' | 'yield' | 'model' | 'write' | ...
        self.name = name
        self.args = args
        self.out = out          # origin name of the result
        self.extra = extra

    def __repr__(self):
        return '%s:%s' % (self.kind, self.name)


class NoMerge(Exception):
    pass


class Fork(Exception):
    """raised by models to fork: alternatives = [(cond or None, continuation(st) -> value)]"""

    def __init__(self, alts):
        self.alts = alts


# ------------------------------------------------------------------ executor

class Executor:
    def __init__(self, mirpath, srcroot, cfg=None):
        self.fns, self.order = load(mirpath)
        self.src = SrcInfo(srcroot)
        self.cfg = dict(unroll=8, max_paths=200000, max_steps=400000, solver_timeout_ms=60000,
                        env_params=('PE', 'HR', 'IN', 'TM', 'MR', 'ST', 'AS', 'CH', 'IR', 'PL', 'Self', 'S', 'T'),
                        trace_writes=False, verbose=False)
        if cfg:
            self.cfg.update(cfg)
        self.axioms = {}            # name -> z3 Bool (type ranges of symbolic constants)
        self.stats = dict(paths=0, steps=0, queries=0, solver_s=0.0, forks=0, havocs=0, calls_inlined=0)
        self.models = {}            # canonical name -> python fn
        self.model_patterns = []    # (regex, fn)
        self.encoded = {}           # fn name -> hash
        self.havoc_log = {}
        self.const_cache = {}
        self._index_defs()
        self.solver = z3.Solver()
        # feasibility queries get a short cap (an undecided branch aborts that path: inconclusive, never a
        # verdict); property queries go through solve() with the full cap
        self.solver.set('timeout', min(self.cfg['solver_timeout_ms'], self.cfg.get('branch_timeout_ms', 15000)))
        self.deadline = time.time() + self.cfg.get('time_budget_s', 1500)
        self.strict_unknown_calls = False
        self.consts_seen = {}
        self._divmod = {}
        self._consts = {}
        self._clo_ord = {}
        self._keep_locals = False
        self._ax_done = {}
        self._ipdom = {}
        self.budget_hit = False
        self.fork_sites = {}
        self._live = {}
        self._hint = None

    # ---------------------------------------------------------- definition index

    def _index_defs(self):
        self.defs = {}      # key -> [Fn]
        self.by_last = {}   # last path segment -> [Fn]
        self.closures = {}  # '{closure@pos}' -> Fn ; '{async block@pos}' -> Fn
        self.closures_all = {}
        self.coro_of = {}   # constructor fn name -> Fn (the ::{closure#0} body of an async fn)
        for fn in self.order:
            if fn.kind != 'fn':
                continue
            name = fn.name
            # closure / coroutine bodies: first arg type names the closure
            if fn.args:
                t0 = fn.args[0][1]
                m = re.search(r'\{closure@[^}]*\}', t0)
                if m and re.search(r'\{closure#\d+\}$', name):
                    key = m.group(0)
                    if re.fullmatch(r"(&\s*('[a-z_]+\s+)?(mut\s+)?)?" + re.escape(key), t0.strip()):
                        self.closures.setdefault(key, fn)
                        self.closures_all.setdefault(key, []).append(fn)
                m = re.search(r'\{async (block|closure body)@[^}]*\}', t0)
                if m and t0.startswith('Pin<&mut '):
                    self.closures.setdefault(m.group(0), fn)
                if t0.startswith('Pin<&mut {async fn body of ') and name.endswith('::{closure#0}'):
                    self.coro_of[name[:-len('::{closure#0}')]] = fn
            for key in self._def_keys(name):
                self.defs.setdefault(key, []).append(fn)
            self.by_last.setdefault(self._segments(name)[-1], []).append(fn)

    def _def_keys(self, name):
        """canonical lookup keys of a definition name"""
        keys = []
        # split into segments at top-level '::'
        segs = self._segments(name)
        # find last `<impl at file:l:c: l:c>` segment
        impl_i = None
        for i, s in enumerate(segs):
            if s.startswith('<impl at '):
                impl_i = i
        tail = None
        if impl_i is not None:
            m = re.match(r'<impl at (.*?):(\d+):(\d+): \d+:\d+>', segs[impl_i])
            info = self.src.impl_at(m.group(1), int(m.group(2)), int(m.group(3))) if m else None
            tail = '::'.join(segs[impl_i + 1:])
            if info:
                trait, ty = info
                keys.append('%s::%s' % (ty, tail))
                if trait:
                    keys.append('<%s as %s>::%s' % (ty, trait, tail))
        else:
            # free function or trait default method: module::path::name
            keys.append(segs[-1] if not segs[-1].startswith('{') else '::'.join(segs[-2:]))
            if len(segs) >= 2:
                keys.append('::'.join(segs[-2:]))
                # closures nested in free functions
                k = len(segs) - 1
                while k > 0 and segs[k].startswith('{'):
                    k -= 1
                if k < len(segs) - 1:
                    keys.append('::'.join(segs[k:]))
                    if k >= 1:
                        keys.append('::'.join(segs[k - 1:]))
        return keys

    @staticmethod
    def _segments(name):
        segs = []
        d = 0
        cur = []
        i = 0
        n = len(name)
        while i < n:
            c = name[i]
            if c in '<([{':
                d += 1
            elif c in ')]}':
                d -= 1
            elif c == '>' and name[i - 1] != '-':
                d -= 1
            if d == 0 and name.startswith('::', i):
                segs.append(''.join(cur))
                cur = []
                i += 2
                continue
            cur.append(c)
            i += 1
        segs.append(''.join(cur))
        return segs

    @staticmethod
    def strip_generics(s):
        """remove `::<...>` turbofish groups and generic args after type names at top level"""
        out = []
        i = 0
        n = len(s)
        while i < n:
            if s.startswith('::<', i) and not (s.startswith('::<impl ', i) and Executor._angle_followed_by_path(s, i + 2)):
                # skip balanced angle group (but keep `path::<impl T>::method` segments)
                d = 0
                j = i + 2
                while j < n:
                    if s[j] == '<':
                        d += 1
                    elif s[j] == '>' and s[j - 1] != '-':
                        d -= 1
                        if d == 0:
                            break
                    j += 1
                i = j + 1
                continue
            out.append(s[i])
            i += 1
        return ''.join(out)

    @staticmethod
    def _angle_followed_by_path(s, i):
        d = 0
        n = len(s)
        j = i
        while j < n:
            if s[j] == '<':
                d += 1
            elif s[j] == '>' and s[j - 1] != '-':
                d -= 1
                if d == 0:
                    return s.startswith('::', j + 1)
            j += 1
        return False

    def canon_call(self, func):
        """canonical form of a call-site function text -> (key, selfty, trait, method, raw)"""
        f = func.strip()
        if f.startswith('<'):
            # <T as Trait>::method   (T may itself contain `as`)
            k = self._match_angle(f, 0)
            inner = f[1:k]
            rest = f[k + 1:]
            parts = self._split_as(inner)
            meth = self.strip_generics(rest).lstrip(':')
            if len(parts) == 2:
                selfty, trait = parts
                return ('<%s as %s>::%s' % (simple_name(selfty), simple_name(trait), meth), selfty.strip(), trait.strip(), meth, f)
            return ('%s::%s' % (simple_name(inner), meth), inner.strip(), None, meth, f)
        g = self.strip_generics(f)
        segs = self._segments(g)
        segs = [re.sub(r'<.*>$', '', s) if not s.startswith(('{', '<')) else s for s in segs]
        # method name incl. trailing closure segments
        k = len(segs) - 1
        while k > 0 and segs[k].startswith('{'):
            k -= 1
        meth = '::'.join(segs[k:])
        if k >= 1:
            return ('%s::%s' % (segs[k - 1], meth), segs[k - 1], None, meth, f)
        return (meth, None, None, meth, f)

    @staticmethod
    def _match_angle(s, i):
        d = 0
        n = len(s)
        while i < n:
            c = s[i]
            if c == '<':
                d += 1
            elif c == '>' and s[i - 1] not in '-=':
                d -= 1
                if d == 0:
                    return i
            i += 1
        raise Inconclusive('unbalanced angle in ' + s[:100])

    @staticmethod
    def _split_as(inner):
        d = 0
        i = 0
        n = len(inner)
        last = None
        while i < n:
            c = inner[i]
            if c in '<([{':
                d += 1
            elif c in ')]}' or (c == '>' and inner[i - 1] not in '-='):
                d -= 1
            elif d == 0 and inner.startswith(' as ', i):
                last = i
            i += 1
        if last is None:
            return [inner]
        return [inner[:last], inner[last + 4:]]

    # ---------------------------------------------------------- solver

    def consts_of(self, e):
        """names of the uninterpreted constants of term e (cached by AST id)"""
        k = e.get_id()
        hit = self._consts.get(k)
        if hit is not None:
            return hit[1]
        names = set()
        todo = [e]
        seen = set()
        while todo:
            x = todo.pop()
            i = x.get_id()
            if i in seen:
                continue
            seen.add(i)
            if z3.is_const(x):
                if x.decl().kind() == z3.Z3_OP_UNINTERPRETED:
                    names.add(x.decl().name())
            else:
                todo.extend(x.children())
        # definitional axioms (division lemma) tie fresh q/r to the dividend's constants
        grew = True
        while grew:
            grew = False
            for n in list(names):
                a = self.axioms.get(n)
                if a is not None and n not in self._ax_done.get(k, ()):
                    self._ax_done.setdefault(k, set()).add(n)
                    extra = self.consts_of(a) if a.get_id() != k else set()
                    if not extra <= names:
                        names |= extra
                        grew = True
        fs = frozenset(names)
        self._consts[k] = (e, fs)       # keep e alive: z3 reuses the ids of collected ASTs
        return fs

    def eval_on_path(self, st, term):
        """some value the term takes on this path (from a model of the relevant slice), or None"""
        r = self.check(st, [term == term], want_model=term)
        return r if not isinstance(r, str) else None

    def check(self, st, extra=(), want_model=None):
        """satisfiability of pc + extra; returns 'sat' | 'unsat' | 'unknown'.
        The path condition is satisfiable by construction (only feasible branches are followed), so only
        the conjuncts in the cone of influence of `extra` (sharing constants, transitively) are sent."""
        if time.time() > self.deadline:
            raise Inconclusive('time budget of this exploration (%d s) exhausted' % self.cfg.get('time_budget_s', 1500))
        conds = []
        for c in extra:
            if want_model is None:
                c = z3.simplify(c) if not z3.is_true(c) and not z3.is_false(c) else c
            if z3.is_false(c):
                return 'unsat'
            if not z3.is_true(c):
                conds.append(c)
        if not conds:
            return 'sat'
        names = set()
        for c in conds:
            names |= self.consts_of(c)
        if want_model is not None:
            names |= self.consts_of(want_model)
        pcs = [(c, self.consts_of(c)) for c in st.pc]
        chosen = []
        rest = pcs
        grew = True
        while grew:
            grew = False
            keep = []
            for c, ns in rest:
                if ns & names:
                    chosen.append(c)
                    if not ns <= names:
                        names |= ns
                    grew = True
                else:
                    keep.append((c, ns))
            rest = keep
        allc = conds + chosen
        t = time.time()
        s = self.solver
        s.push()
        try:
            for c in allc:
                s.add(c)
            for a in self._axioms_for(allc + ([want_model] if want_model is not None else [])):
                s.add(a)
            r = s.check()
            if want_model is not None and r == z3.sat:
                mv = s.model().eval(want_model, model_completion=True)
                self.stats['queries'] += 1
                self.stats['solver_s'] += time.time() - t
                return mv
        finally:
            s.pop()
        self.stats['queries'] += 1
        self.stats['solver_s'] += time.time() - t
        return str(r)

    def solve(self, st, extra=()):
        """-> ('sat', model) | ('unsat', None) | ('unknown', None)"""
        s = z3.Solver()
        s.set('timeout', self.cfg['solver_timeout_ms'])
        allc = list(st.pc) + list(extra)
        for c in allc:
            s.add(c)
        for a in self._axioms_for(allc):
            s.add(a)
        t = time.time()
        r = s.check()
        self.stats['queries'] += 1
        self.stats['solver_s'] += time.time() - t
        if r == z3.sat:
            return 'sat', s.model()
        return str(r), None

    def model(self, st, extra=()):
        r, m = self.solve(st, extra)
        if r == 'unknown':
            raise Inconclusive('solver returned unknown')
        return m

    def _axioms_for(self, conds):
        names = set()
        todo = list(conds)
        seen = set()
        out = []
        while todo:
            e = todo.pop()
            if e.get_id() in seen:
                continue
            seen.add(e.get_id())
            if z3.is_const(e) and e.decl().kind() == z3.Z3_OP_UNINTERPRETED:
                n = e.decl().name()
                if n not in names:
                    names.add(n)
                    a = self.axioms.get(n)
                    if a is not None:
                        out.append(a)
                        todo.append(a)
            else:
                todo.extend(e.children())
        return out

    def divmod_const(self, x, k):
        """(floor(x / k), x mod k) for a constant k > 0, as fresh integers tied to x by the division
        lemma x = k*q + r, 0 <= r < k  (keeps every query in linear integer arithmetic)"""
        xs = z3.simplify(x)
        if z3.is_int_value(xs):
            v = xs.as_long()
            return z3.IntVal(v // k), z3.IntVal(v % k)
        key = (xs.get_id(), k)
        hit = self._divmod.get(key)
        if hit is not None:
            return hit[0], hit[1]
        n = len(self._divmod)
        q = z3.Int('q!%d' % n)
        r = z3.Int('r!%d' % n)
        ax = z3.And(xs == k * q + r, r >= 0, r < k)
        self.axioms['q!%d' % n] = ax
        self.axioms['r!%d' % n] = ax
        self._divmod[key] = (q, r, xs)
        return q, r

    def idiv(self, x, y):
        ys = z3.simplify(y) if not isinstance(y, int) else z3.IntVal(y)
        if z3.is_int_value(ys) and ys.as_long() > 0:
            return self.divmod_const(x, ys.as_long())[0]
        return x / y

    def imod(self, x, y):
        ys = z3.simplify(y) if not isinstance(y, int) else z3.IntVal(y)
        if z3.is_int_value(ys) and ys.as_long() > 0:
            return self.divmod_const(x, ys.as_long())[1]
        return x % y

    def smt2(self, st, extra=()):
        s = z3.Solver()
        allc = list(st.pc) + list(extra)
        for c in allc:
            s.add(c)
        for a in self._axioms_for(allc):
            s.add(a)
        return s.to_smt2()

    # ---------------------------------------------------------- symbolic values

    def sym_int(self, name, ty):
        c = z3.Int(name)
        lo, hi = int_range(ty)
        self.axioms[name] = z3.And(c >= lo, c <= hi)
        return Sc(c, ty)

    def mk_sym(self, ty, name):
        ty = (ty or '?').strip()
        if ty in INT_BITS:
            return self.sym_int(name, ty)
        if ty == 'bool':
            return Sc(z3.Bool(name), 'bool')
        if ty == '()':
            return UNIT
        if is_string_ty(ty):
            return Sc(z3.String(name), 'str')
        p = pointee(ty)
        if p is not None:
            return Ptr(name + '*', ())
        return Tree({}, name, ty)

    def discr_of(self, st, v, ty=None):
        """discriminant term of an enum-like value"""
        if isinstance(v, Tree):
            d = v.f.get('discr')
            if d is not None:
                return d
            if v.origin is not None:
                name = v.origin + '.discr'
                c = z3.Int(name)
                n = self._nvariants(v.ty or ty)
                if n:
                    self.axioms[name] = z3.And(c >= 0, c < n)
                elif name not in self.axioms:
                    self.axioms[name] = (c >= 0)
                return Sc(c, 'isize')
        if isinstance(v, Sc) and v.ty != 'bool':
            return v
        raise Inconclusive('discriminant of %r (ty %s)' % (v, ty))

    def _nvariants(self, ty):
        if not ty:
            return None
        h = type_head(ty)
        vs = self.src.enums.get(h)
        if vs and h not in self.src.enum_discr:
            return len(vs)
        return None

    # ---------------------------------------------------------- memory

    def cell_root(self, st, cell):
        v = st.cells.get(cell)
        if v is None:
            if isinstance(cell, tuple) and cell and cell[0] == 'const':
                return self.const_cells.get(cell)
            if isinstance(cell, str):
                return Tree({}, cell, st.extra.get(('cellty', cell)))
            return None
        return v

    def child(self, st, node, key, ty):
        """read child `key` of node (materialising lazily)"""
        if isinstance(node, Tree):
            c = node.f.get(key)
            if c is not None:
                return c
            if node.origin is not None:
                if key == 'discr':
                    return self.discr_of(st, node)
                nm = '%s.%s' % (node.origin, key if not isinstance(key, tuple) else 'v%d' % key[1])
                if isinstance(key, tuple):
                    return Tree({}, nm, None)
                return self.mk_sym(ty, nm)
            # explicit aggregate without this key: uninitialised / moved-out / other variant
            nm = st.fresh('uninit')
            st.notes.append(('uninit-read', key, ty))
            return self.mk_sym(ty, nm) if ty else Tree({}, nm, None)
        if isinstance(node, Obj):
            raise Inconclusive('MIR projects into model object %r key %r' % (node.kind, key))
        if node is None:
            nm = st.fresh('uninit')
            return self.mk_sym(ty, nm) if ty else Tree({}, nm, None)
        if isinstance(node, Ptr) and key == 0:
            # newtype-like wrapper around a pointer modelled transparently (Pin, NonNull, Unique)
            return node
        raise Inconclusive('projection %r on scalar %r' % (key, node))

    def load(self, st, cell, tpath):
        v = self.cell_root(st, cell)
        for key, ty in tpath:
            v = self.child(st, v, key, ty)
        return v

    def store(self, st, cell, tpath, val):
        root = self.cell_root(st, cell)
        st.cells[cell] = self._upd(st, root, list(tpath), val)

    def _upd(self, st, node, tpath, val):
        if not tpath:
            return val
        key, ty = tpath[0]
        if isinstance(node, Tree):
            child = node.f.get(key)
            if child is None and node.origin is not None and len(tpath) > 1:
                child = self.child(st, node, key, ty)
            new = Tree(dict(node.f), node.origin, node.ty, node.meta)
        elif node is None:
            child = None
            new = Tree({}, None, None)
        elif isinstance(node, Ptr) and key == 0:
            return self._upd(st, None, tpath[1:], val) if len(tpath) > 1 else val
        else:
            raise Inconclusive('store through non-aggregate %r key %r' % (node, key))
        new.f[key] = self._upd(st, child, tpath[1:], val)
        return new

    # place resolution ------------------------------------------------------

    def resolve(self, st, frame, place):
        """-> (cell, typed_path list, type string or None)"""
        cell = (frame.fid, place.local)
        ty = frame.fn.locals.get(place.local)
        tpath = []
        for p in place.proj:
            k = p[0]
            if k == 'deref':
                v = self.load(st, cell, tpath)
                if isinstance(v, Tree) and v.origin is not None and not v.f:
                    # lazily typed unknown: treat as pointer
                    v = Ptr(v.origin + '*', ())
                if isinstance(v, Tree) and 0 in v.f and isinstance(v.f[0], Ptr) and len(v.f) == 1:
                    v = v.f[0]
                if not isinstance(v, Ptr):
                    raise Inconclusive('deref of non-pointer %r at %s' % (v, place))
                cell = v.cell
                tpath = [(kk, None) for kk in v.path]
                inner = pointee(ty) if ty else None
                if isinstance(cell, str) and inner and ('cellty', cell) not in st.extra:
                    st.extra[('cellty', cell)] = inner
                ty = inner
            elif k == 'field':
                tpath.append((p[1], p[2]))
                ty = p[2]
            elif k == 'downcast':
                var = p[1]
                if isinstance(var, int):
                    idx = var
                else:
                    idx = self.variant_idx(ty, var)
                tpath.append((('v', idx), None))
            elif k == 'constindex':
                i, n, from_end = p[1], p[2], p[3]
                if from_end:
                    cur = self.load(st, cell, tpath)
                    if not (isinstance(cur, Tree) and cur.origin is None):
                        raise Inconclusive('from-end index into %r' % (cur,))
                    ln = len([kk for kk in cur.f if isinstance(kk, int)])
                    i = ln - i
                tpath.append((i, None))
                ty = None
            elif k == 'index':
                iv = self.load(st, (frame.fid, p[1]), [])
                t = z3.simplify(iv.t)
                if not z3.is_int_value(t):
                    raise Inconclusive('symbolic array index at %s' % place)
                tpath.append((t.as_long(), None))
                ty = None
            else:
                raise Inconclusive('projection %r' % (p,))
        return cell, tpath, ty

    def variant_idx(self, ty, var):
        m = re.fullmatch(r'_(\d+)', var)
        if m:
            return int(m.group(1))          # variants of the enum generated by select! (`__PrivResult::_N`)
        h = type_head(ty) if ty else None
        if h:
            i = self.src.variant_index(h, var)
            if i is not None:
                return i
        # unique across all known enums?
        cands = set()
        for e, vs in self.src.enums.items():
            if var in vs:
                cands.add(vs.index(var))
        if len(cands) == 1:
            return cands.pop()
        raise Inconclusive('cannot resolve variant %r of type %r' % (var, ty))

    def read_place(self, st, frame, place):
        cell, tpath, ty = self.resolve(st, frame, place)
        v = self.load(st, cell, tpath)
        if v is None:
            nm = st.fresh('uninit')
            v = self.mk_sym(ty, nm)
        return v

    def write_place(self, st, frame, place, val):
        cell, tpath, ty = self.resolve(st, frame, place)
        self.store(st, cell, tpath, val)
        if self.cfg['trace_writes'] and isinstance(cell, str):
            st.trace.append(Event('write', cell, (tuple(k for k, _ in tpath), val)))

    # ---------------------------------------------------------- constants

    _int_lit = re.compile(r'^(-?\d+)_([iu](?:8|16|32|64|128|size))$')

    def const_value(self, st, frame, text, want_ty=None):
        t = text.strip()
        m = self._int_lit.match(t)
        if m:
            return Sc(z3.IntVal(int(m.group(1))), m.group(2))
        m = re.fullmatch(r'(?:(?:std|core)::)?([iu](?:8|16|32|64|128|size))::(MIN|MAX)', t)
        if m:
            lo, hi = int_range(m.group(1))
            return Sc(z3.IntVal(lo if m.group(2) == 'MIN' else hi), m.group(1))
        if t == 'true':
            return Sc(z3.BoolVal(True), 'bool')
        if t == 'false':
            return Sc(z3.BoolVal(False), 'bool')
        if t == '()' or t.startswith('ZeroSized'):
            if t.startswith('ZeroSized: '):
                ty = t[len('ZeroSized: '):]
                if ty.startswith('{closure@') or ty.startswith('fn(') or '{closure@' in ty:
                    return Tree({}, None, ty)
                return Obj('fnitem', ty, ty) if re.match(r'^fn\(|^for<', ty) else Tree({}, None, ty)
            return UNIT
        if t.startswith('"'):
            body = t[1:t.rfind('"')]
            try:
                body = bytes(body, 'utf-8').decode('unicode_escape')
            except Exception:
                pass
            return Sc(z3.StringVal(body), 'str')
        if t.startswith("'") and t.endswith("'"):
            body = t[1:-1]
            try:
                body = bytes(body, 'utf-8').decode('unicode_escape')
            except Exception:
                pass
            return Sc(z3.IntVal(ord(body[0]) if body else 0), 'char')
        if t.startswith('b"'):
            body = t[2:t.rfind('"')]
            bs = bytes(body, 'utf-8').decode('unicode_escape').encode('latin-1')
            return Obj('bytes', tuple(Sc(z3.IntVal(b), 'u8') for b in bs))
        # promoted or named constant
        key = t
        if '::promoted[' in t or t.startswith('promoted['):
            # promoteds belong to the function being executed (the dump prints its polymorphic path)
            key = frame.fn.name + '::' + t[t.rfind('promoted['):]
            if key not in self.fns and t in self.fns:
                key = t
            return self.eval_const_body(st, key)
        if t.startswith('{') or t.startswith('<'):
            if t.startswith('{alloc') or t.startswith('{0x') or t.startswith('{transmute'):
                nm = st.fresh('constalloc')
                return self.mk_sym(want_ty or '?', nm)
        # named const defined in the dump?
        c = self.lookup_const(t)
        if c is not None:
            return self.eval_const_body(st, c)
        # function item or unit constructor used as value
        return Obj('fnitem', t, want_ty)

    def lookup_const(self, name):
        n = self.strip_generics(name)
        if n in self.fns and self.fns[n][0].kind in ('const', 'static'):
            return n
        last = n.split('::')[-1]
        cands = [k for k, v in self.fns.items() if v[0].kind in ('const', 'static') and
                 (k == n or k.endswith('::' + n) or n.endswith('::' + k) or
                  (k.split('::')[-1] == last and '::' not in n))]
        if len(cands) == 1:
            return cands[0]
        if len(cands) > 1:
            ex = [k for k in cands if k.endswith(n)]
            if len(ex) == 1:
                return ex[0]
        return None

    def eval_const_body(self, st, key):
        if key in self.const_cache:
            return self.const_cache[key]
        fl = self.fns.get(key)
        if not fl:
            raise Inconclusive('unknown constant %s' % key)
        fn = fl[0]
        if fn.value_text is not None:
            v = self.const_value(st, None, fn.value_text, fn.ret)
            self.const_cache[key] = v
            return v
        # run the body in a scratch state (constants have no inputs)
        sub = State()
        sub.nfresh = 10 ** 6 + len(self.const_cache) * 1000
        keep = self._keep_locals
        self._keep_locals = True        # promoted constants return references to their own locals
        try:
            res = self.run_fn(fn, [], sub, single=True)
        finally:
            self._keep_locals = keep
        if len(res) != 1 or res[0].status != 'done':
            raise Inconclusive('constant body %s did not evaluate to one value' % key)
        v = res[0].result
        # move heap cells created by the constant into a shared table
        for c, val in res[0].cells.items():
            if isinstance(c, tuple):
                self.const_cells[('const', key) + c] = val
        v = self._rebase_const(v, key)
        self.const_cache[key] = v
        return v

    const_cells = {}

    def _rebase_const(self, v, key):
        if isinstance(v, Ptr) and isinstance(v.cell, tuple):
            return Ptr(('const', key) + v.cell, v.path)
        if isinstance(v, Tree):
            return Tree(dict((k, self._rebase_const(c, key)) for k, c in v.f.items()), v.origin, v.ty, v.meta)
        return v

    # ---------------------------------------------------------- operands / rvalues

    def eval_operand(self, st, frame, op, want_ty=None):
        if op.kind == 'const':
            return self.const_value(st, frame, op.text, want_ty)
        return self.read_place(st, frame, op.place)

    def as_bool(self, v):
        if isinstance(v, Sc):
            if v.ty == 'bool':
                return v.t
            return v.t != 0
        raise Inconclusive('not a bool: %r' % (v,))

    def wrap(self, t, ty):
        lo, hi = int_range(ty)
        m = hi - lo + 1
        if lo == 0:
            return self.imod(t, m)
        return self.imod(t - lo, m) + lo

    def binop(self, st, op, a, b):
        if op in ('Eq', 'Ne'):
            if isinstance(a, Sc) and isinstance(b, Sc):
                if a.ty == 'bool' and b.ty == 'bool' or (a.ty == 'str' and b.ty == 'str'):
                    e = a.t == b.t
                else:
                    e = a.t == b.t
                return Sc(e if op == 'Eq' else z3.Not(e), 'bool')
            if isinstance(a, Ptr) and isinstance(b, Ptr):
                e = z3.BoolVal(a.cell == b.cell and a.path == b.path)
                return Sc(e if op == 'Eq' else z3.Not(e), 'bool')
            raise Inconclusive('Eq on %r %r' % (a, b))
        if not (isinstance(a, Sc) and isinstance(b, Sc)):
            raise Inconclusive('binop %s on %r %r' % (op, a, b))
        ty = a.ty
        x, y = a.t, b.t
        if op in ('Lt', 'Le', 'Gt', 'Ge'):
            if ty == 'bool':
                x = z3.If(x, 1, 0)
                y = z3.If(y, 1, 0)
            e = {'Lt': x < y, 'Le': x <= y, 'Gt': x > y, 'Ge': x >= y}[op]
            return Sc(e, 'bool')
        if ty == 'bool':
            if op == 'BitAnd':
                return Sc(z3.And(x, y), 'bool')
            if op == 'BitOr':
                return Sc(z3.Or(x, y), 'bool')
            if op == 'BitXor':
                return Sc(z3.Xor(x, y), 'bool')
            raise Inconclusive('bool binop ' + op)
        if op in ('AddWithOverflow', 'SubWithOverflow', 'MulWithOverflow'):
            r = {'A': x + y, 'S': x - y, 'M': x * y}[op[0]]
            lo, hi = int_range(ty)
            ovf = z3.Or(r < lo, r > hi)
            return Tree({0: Sc(self.wrap(r, ty), ty), 1: Sc(ovf, 'bool')}, None, '(%s, bool)' % ty)
        if op in ('Add', 'Sub', 'Mul'):
            r = {'A': x + y, 'S': x - y, 'M': x * y}[op[0]]
            return Sc(self.wrap(r, ty), ty)
        if op in ('AddUnchecked', 'SubUnchecked', 'MulUnchecked'):
            r = {'A': x + y, 'S': x - y, 'M': x * y}[op[0]]
            return Sc(r, ty)
        if op == 'Div':
            return Sc(self.tdiv(x, y, ty), ty)
        if op == 'Rem':
            return Sc(self.trem(x, y, ty), ty)
        if op in ('Shl', 'ShlUnchecked', 'Shr', 'ShrUnchecked'):
            ys = z3.simplify(y)
            if z3.is_int_value(ys):
                k = ys.as_long() % INT_BITS[ty]
                if op.startswith('Shl'):
                    return Sc(self.wrap(x * (1 << k), ty), ty)
                # arithmetic / logical right shift = floor division by 2^k
                return Sc(self.fdiv_pos(x, 1 << k), ty)
            return Sc(self._bv_op(op, x, y, ty), ty)
        if op in ('BitAnd', 'BitOr', 'BitXor'):
            return Sc(self._bv_op(op, x, y, ty), ty)
        if op == 'Cmp':
            return Tree({'discr': Sc(z3.If(x < y, -1, z3.If(x == y, 0, 1)), 'i8')}, None, 'Ordering')
        raise Inconclusive('binop ' + op)

    def _bv_op(self, op, x, y, ty):
        w = INT_BITS[ty]
        bx = z3.Int2BV(x, w)
        by = z3.Int2BV(y, w)
        if op == 'BitAnd':
            r = bx & by
        elif op == 'BitOr':
            r = bx | by
        elif op == 'BitXor':
            r = bx ^ by
        elif op.startswith('Shl'):
            r = bx << by
        else:
            r = (bx >> by) if ty[0] == 'i' else z3.LShR(bx, by)
        return z3.BV2Int(r, ty[0] == 'i')

    def fdiv_pos(self, x, k):
        """floor(x / k) for constant k > 0"""
        return self.divmod_const(x, k)[0]

    def tdiv(self, x, y, ty):
        """Rust integer division: truncation toward zero"""
        if ty[0] == 'u':
            return self.idiv(x, y)
        # z3 int division rounds toward -inf for positive divisor (Euclidean); fix up
        q = z3.If(y > 0, self.idiv(x, y), self.idiv(-x, -y))   # floor(x/y)
        # q is floor(x/y); truncation differs when x/y negative and inexact
        r = x - q * y
        return z3.If(z3.And(r != 0, (x < 0) != (y < 0)), q + 1, q)

    def trem(self, x, y, ty):
        if ty[0] == 'u':
            return self.imod(x, y)
        return x - self.tdiv(x, y, ty) * y

    def cast(self, st, v, to_ty, kind):
        to_ty = to_ty.strip()
        if kind.startswith('IntToInt') and isinstance(v, Sc):
            if to_ty in INT_BITS:
                t = v.t
                if v.ty == 'bool':
                    t = z3.If(t, 1, 0)
                lo, hi = int_range(to_ty)
                if v.ty in INT_BITS:
                    flo, fhi = int_range(v.ty)
                    if flo >= lo and fhi <= hi:
                        return Sc(t, to_ty)
                return Sc(self.wrap(t, to_ty), to_ty)
        if kind.startswith(('PointerCoercion', 'PtrToPtr', 'Transmute', 'PointerExposeProvenance', 'Subtype',
                            'PointerWithExposedProvenance', 'FnPtrToPtr')):
            return v
        raise Inconclusive('cast %s -> %s (%s)' % (v, to_ty, kind))

    def eval_rvalue(self, st, frame, rv, dest_ty):
        k = rv.kind
        if k == 'use':
            return self.eval_operand(st, frame, rv.a, dest_ty)
        if k in ('ref', 'rawref'):
            if rv.a.proj and rv.a.proj[-1][0] == 'subslice':
                # &slice[a..len-b]: materialise the view (read-only use)
                base = Place(rv.a.local, rv.a.proj[:-1])
                cell, tpath, ty = self.resolve(st, frame, base)
                cur = self.load(st, cell, tpath)
                if not (isinstance(cur, Tree) and cur.origin is None):
                    raise Inconclusive('subslice of %r' % (cur,))
                items = [cur.f[i] for i in sorted(kk for kk in cur.f if isinstance(kk, int))]
                a = rv.a.proj[-1][1]
                b = int(rv.a.proj[-1][2] or 0)
                from_end = rv.a.proj[-1][3]
                hi = len(items) - b if from_end else (b if rv.a.proj[-1][2] != '' else len(items))
                seg = items[a:hi]
                st.nfid += 1
                ncell = (st.nfid, 'subslice')
                st.cells[ncell] = Tree(dict(enumerate(seg)), None, 'slice', meta=('vec', len(seg)))
                return Ptr(ncell, ())
            cell, tpath, ty = self.resolve(st, frame, rv.a)
            return Ptr(cell, [kk for kk, _ in tpath])
        if k == 'binop':
            a = self.eval_operand(st, frame, rv.b)
            b = self.eval_operand(st, frame, rv.c)
            return self.binop(st, rv.a, a, b)
        if k == 'unop':
            a = self.eval_operand(st, frame, rv.b)
            if rv.a == 'Not':
                if isinstance(a, Sc) and a.ty == 'bool':
                    return Sc(z3.Not(a.t), 'bool')
                if isinstance(a, Sc):
                    lo, hi = int_range(a.ty)
                    return Sc((hi + lo) - a.t, a.ty)      # bitwise not: ~x = max+min-x
            if rv.a == 'Neg' and isinstance(a, Sc):
                return Sc(self.wrap(-a.t, a.ty), a.ty)
            if rv.a == 'PtrMetadata':
                if isinstance(a, Obj) and a.kind == 'bytes':
                    return Sc(z3.IntVal(len(a.data)), 'usize')
                if isinstance(a, Obj) and a.kind == 'bstr':
                    return Sc(a.data[0], 'usize')
                if isinstance(a, Ptr):
                    tv = self.load(st, a.cell, [(kk, None) for kk in a.path])
                    if isinstance(tv, Obj) and tv.kind == 'bytes':
                        return Sc(z3.IntVal(len(tv.data)), 'usize')
                    if isinstance(tv, Obj) and tv.kind == 'bstr':
                        return Sc(tv.data[0], 'usize')
                    if isinstance(tv, Tree) and tv.origin is None and (tv.meta and tv.meta[0] == 'vec' or all(isinstance(kk, int) for kk in tv.f)):
                        return Sc(z3.IntVal(len([kk for kk in tv.f if isinstance(kk, int)])), 'usize')
                return self.mk_sym(dest_ty, 'hv!' + st.fresh('ptrmeta'))
            raise Inconclusive('unop %s on %r' % (rv.a, a))
        if k == 'cast':
            return self.cast(st, self.eval_operand(st, frame, rv.a), rv.b, rv.c)
        if k == 'discr':
            cell, tpath, ty = self.resolve(st, frame, rv.a)
            v = self.load(st, cell, tpath)
            d = self.discr_of(st, v, ty)
            return Sc(d.t, dest_ty if dest_ty in INT_BITS else 'isize')
        if k == 'agg':
            return self.aggregate(st, frame, rv, dest_ty)
        if k == 'repeat':
            v = self.eval_operand(st, frame, rv.a)
            try:
                n = int(re.sub(r'_usize$', '', rv.b.replace('const ', '').strip()))
            except ValueError:
                raise Inconclusive('repeat count ' + rv.b)
            return Tree(dict((i, v) for i in range(n)), None, dest_ty)
        if k == 'len':
            v = self.read_place(st, frame, rv.a)
            if isinstance(v, Tree) and v.origin is None:
                return Sc(z3.IntVal(len([kk for kk in v.f if isinstance(kk, int)])), 'usize')
            raise Inconclusive('Len of %r' % (v,))
        if k == 'nullop':
            return self.mk_sym(dest_ty, 'hv!' + st.fresh('nullop'))
        if k == 'box':
            return self.eval_operand(st, frame, rv.a)
        raise Inconclusive('rvalue kind ' + k)

    def aggregate(self, st, frame, rv, dest_ty):
        kind = rv.a
        vals = [self.eval_operand(st, frame, o) for o in rv.b]
        if kind == 'tuple':
            if not vals:
                return UNIT
            return Tree(dict(enumerate(vals)), None, dest_ty)
        if kind == 'array':
            return Tree(dict(enumerate(vals)), None, dest_ty)
        head = kind[1]
        if head.startswith('{coroutine@') or head.startswith('{closure@') or head.startswith('{async'):
            ty = re.sub(r' \(#\d+\)', '', head)
            t = Tree(dict(enumerate(vals)), None, ty, meta=frame.fn.name)
            if head.startswith('{closure@'):
                t.meta = (frame.fn.name, tuple(rv.c or ()), self._closure_ordinal(frame, ty))
            if head.startswith('{coroutine@'):
                t.f['discr'] = Sc(z3.IntVal(0), 'u32')
            return t
        g = self.strip_generics(head)
        segs = [re.sub(r'<.*>$', '', s) for s in self._segments(g)]
        if len(segs) >= 2:
            en, var = segs[-2], segs[-1]
            idx = self.src.variant_index(en, var)
            if idx is not None:
                d = self.src.variant_discr(en, var)
                payload = Tree(dict(enumerate(vals)), None, None)
                return Tree({'discr': Sc(z3.IntVal(d), 'isize'), ('v', idx): payload}, None,
                            dest_ty or en)
        # plain struct (named or tuple struct)
        return Tree(dict(enumerate(vals)), None, dest_ty or head)

    # ---------------------------------------------------------- running

    def new_frame(self, st, fn, args, dest=None, ret_bb=None, on_return=None, tag=None):
        parse_body(fn)
        st.nfid += 1
        fr = Frame(fn, st.nfid, dest, ret_bb, on_return, tag)
        if len(args) != len(fn.args):
            # closures called through FnOnce::call_once get (closure, (args tuple))
            raise Inconclusive('arity mismatch calling %s: %d vs %d' % (fn.name[:80], len(args), len(fn.args)))
        for (n, ty), v in zip(fn.args, args):
            if isinstance(v, Tree) and v.origin is not None and not v.f and v.ty in (None, '?'):
                v = self.mk_sym(ty, v.origin)       # lazily typed unknown: the parameter type fixes it
            st.cells[(fr.fid, n)] = v
        st.frames.append(fr)
        self.encoded[fn.name] = (fn.text_hash, fn.nlines)
        return fr

    def run_fn(self, fn, args, st=None, single=False):
        """run fn from a fresh frame to completion; returns list of terminal states"""
        st = st or State()
        self.new_frame(st, fn, args)
        return self.explore(st, single=single)

    def explore(self, st0, single=False):
        out = []
        stack = [st0]
        while stack:
            st = stack.pop()
            forks = self.run_one(st)
            if forks:
                stack.extend(reversed(forks))
                continue
            self.stats['paths'] += 1
            out.append(st)
            if self.stats['paths'] > self.cfg['max_paths']:
                if self.cfg.get('on_budget') == 'stop':
                    self.budget_hit = True
                    break
                raise Inconclusive('path budget exhausted (%d)' % self.cfg['max_paths'])
        return out

    def run_one(self, st):
        """run_path + error capture + diamond merging of the forks it returns"""
        self._hint = None
        try:
            forks = self.run_path(st)
        except Inconclusive as e:
            st.status = 'abort'
            st.info = str(e)
            fr = st.frames[-1] if st.frames else None
            if fr is not None:
                st.info += ' [in %s bb%d]' % (fr.fn.name[-80:], fr.bb)
            return None
        if forks:
            self.stats['forks'] += len(forks) - 1
            hint = self._hint
            if hint is not None and len(forks) > 1 and self.cfg.get('merge', True):
                forks = self.merge(forks, hint)
        return forks

    def merge(self, forks, hint):
        """run the alternatives of a fork up to the immediate post-dominator of the forking block and
        collapse those that arrive there in identical states (differing only in path condition)"""
        for f in forks:
            f.stops.append(hint)
        stack = list(reversed(forks))
        joined = []
        finished = []
        n = 0
        budget = self.cfg.get('merge_budget', 48)
        while stack:
            st = stack.pop()
            n += 1
            if n > budget:
                finished.append(st)
                continue
            fk = self.run_one(st)
            if fk:
                stack.extend(reversed(fk))
                continue
            if st.status == 'joined' and st.stops and st.stops[-1] == hint:
                st.stops.pop()
                st.status = 'running'
                joined.append(st)
            else:
                if st.status == 'escaped':
                    st.status = 'running'
                finished.append(st)
        for st in finished:
            if hint in st.stops:
                st.stops.remove(hint)
        L0 = hint[3]
        out = []
        reps = []
        for st in joined:
            cond = z3.And(*st.pc[L0:]) if len(st.pc) > L0 else z3.BoolVal(True)
            for rep in reps:
                diffs = self.same_state(rep[0], st)
                if diffs is None:
                    continue
                try:
                    newcells = {}
                    for k in diffs:
                        newcells[k] = self.vmerge(rep[0].cells.get(k), st.cells.get(k), cond)
                except NoMerge:
                    continue
                r0 = rep[0]
                r0.cells.update(newcells)
                rep[1].append(cond)
                r0.nfid = max(r0.nfid, st.nfid)
                r0.nfresh = max(r0.nfresh, st.nfresh)
                for fr, fx in zip(r0.frames, st.frames):
                    for k, v in fx.visits.items():
                        if v > fr.visits.get(k, 0):
                            fr.visits[k] = v
                self.stats['merged'] = self.stats.get('merged', 0) + 1
                break
            else:
                reps.append((st, [cond]))
        for st, conds in reps:
            if len(conds) > 1:
                c = z3.simplify(z3.Or(*conds))
                st.pc = st.pc[:L0] + ([] if z3.is_true(c) else [c])
            out.append(st)
        return out + finished

    def vmerge(self, a, b, cond_b):
        """value equal to b under cond_b and to a otherwise; only scalar leaves may differ"""
        if a is b:
            return a
        if a is None or b is None or type(a) is not type(b):
            raise NoMerge()
        if isinstance(a, Sc):
            if a.ty != b.ty:
                raise NoMerge()
            if a.t.eq(b.t):
                return a
            return Sc(z3.If(cond_b, b.t, a.t), a.ty)
        if isinstance(a, Tree):
            if a.origin != b.origin or a.f.keys() != b.f.keys():
                return self._vmerge_enum(a, b, cond_b)
            f = {}
            same = True
            for k in a.f:
                m = self.vmerge(a.f[k], b.f[k], cond_b)
                if m is not a.f[k]:
                    same = False
                f[k] = m
            return a if same else Tree(f, a.origin, a.ty, a.meta)
        if self.veq(a, b):
            return a
        raise NoMerge()

    def _vmerge_enum(self, a, b, cond_b):
        """merge two enum values of different shape (explicit variants and/or lazily symbolic ones)"""
        def enumish(t):
            return 'discr' in t.f or (t.origin is not None and not any(isinstance(k, int) for k in t.f))
        if not (enumish(a) and enumish(b)) or ('discr' not in a.f and 'discr' not in b.f):
            raise NoMerge()
        dummy = State()
        try:
            da = self.discr_of(dummy, a).t
            db = self.discr_of(dummy, b).t
        except Inconclusive:
            raise NoMerge()
        keys = set(k for k in a.f if isinstance(k, tuple)) | set(k for k in b.f if isinstance(k, tuple))
        f = {'discr': Sc(z3.If(cond_b, db, da), 'isize')}
        for k in keys:
            ca = a.f.get(k)
            cb = b.f.get(k)
            if ca is None and a.origin is not None:
                ca = self.child(dummy, a, k, None)
            if cb is None and b.origin is not None:
                cb = self.child(dummy, b, k, None)
            if ca is None:
                f[k] = cb
            elif cb is None:
                f[k] = ca
            else:
                f[k] = self._vmerge_payload(ca, cb, cond_b)
        origin = None
        if (a.origin is None) != (b.origin is None):
            # variants that only the symbolic side can be in keep materialising from its origin
            origin = a.origin or b.origin
        elif a.origin is not None and a.origin == b.origin:
            origin = a.origin
        elif a.origin is not None:
            raise NoMerge()
        return Tree(f, origin, a.ty or b.ty, a.meta)

    def _vmerge_payload(self, a, b, cond_b):
        if isinstance(a, Tree) and isinstance(b, Tree) and a.origin != b.origin and not a.f and not b.f:
            raise NoMerge()
        if isinstance(a, Tree) and isinstance(b, Tree) and a.f.keys() != b.f.keys() and a.origin is None and b.origin is None \
                and 'discr' not in a.f and 'discr' not in b.f:
            raise NoMerge()
        if isinstance(a, Tree) and isinstance(b, Tree) and 'discr' not in a.f and 'discr' not in b.f:
            # variant payload tuples: merge field-wise, materialising lazily on the symbolic side
            dummy = State()
            keys = set(a.f) | set(b.f)
            f = {}
            for k in keys:
                ca = a.f.get(k)
                cb = b.f.get(k)
                if ca is None and a.origin is not None:
                    ca = self._typed_like(dummy, a, k, cb)
                if cb is None and b.origin is not None:
                    cb = self._typed_like(dummy, b, k, ca)
                if ca is None or cb is None:
                    raise NoMerge()
                f[k] = self.vmerge(ca, cb, cond_b)
            return Tree(f, None, a.ty or b.ty, a.meta)
        return self.vmerge(a, b, cond_b)

    def _typed_like(self, st, parent, key, other):
        ty = other.ty if isinstance(other, (Sc, Tree)) else None
        if isinstance(other, Sc) and other.ty == 'str':
            ty = 'String'
        return self.child(st, parent, key, ty)

    def same_state(self, a, b):
        """None if the states cannot be merged; else the list of cell keys whose values differ"""
        if len(a.frames) != len(b.frames) or len(a.trace) != len(b.trace):
            return None
        for fa, fb in zip(a.frames, b.frames):
            if fa.fn is not fb.fn or fa.fid != fb.fid or fa.bb != fb.bb or fa.idx != fb.idx \
                    or fa.on_return is not fb.on_return or fa.dest != fb.dest or fa.ret_bb != fb.ret_bb:
                return None
        if a.stops != b.stops:
            return None
        for ea, eb in zip(a.trace, b.trace):
            if ea is eb:
                continue
            if ea.kind != eb.kind or ea.name != eb.name or ea.out != eb.out or not self.veq(ea.args, eb.args):
                return None
        ka = a.cells
        kb = b.cells
        live = set(f.fid for f in a.frames)
        top = a.frames[-1]
        top_live = self.live_in(top.fn, top.bb) if top.idx == 0 else None
        diffs = []
        for k in set(ka) | set(kb):
            va = ka.get(k)
            vb = kb.get(k)
            if va is vb:
                continue
            if isinstance(k, tuple) and len(k) == 2 and isinstance(k[1], int):
                if k[0] not in live:
                    continue        # local of a frame that has returned
                if k[0] == top.fid and top_live is not None and k[1] not in top_live:
                    continue        # dead local of the joining frame
            if va is None or vb is None:
                return None
            if not self.veq(va, vb):
                diffs.append(k)
        for k in set(a.extra) | set(b.extra):
            if a.extra.get(k) != b.extra.get(k):
                return None
        return diffs

    def veq(self, a, b):
        if a is b:
            return True
        if type(a) is not type(b):
            return False
        if isinstance(a, Sc):
            return a.ty == b.ty and a.t.eq(b.t)
        if isinstance(a, Ptr):
            return a.cell == b.cell and a.path == b.path
        if isinstance(a, Tree):
            if a.origin != b.origin or a.f.keys() != b.f.keys():
                return False
            return all(self.veq(a.f[k], b.f[k]) for k in a.f)
        if isinstance(a, Obj):
            return a.kind == b.kind and self.veq(a.data, b.data)
        if isinstance(a, (tuple, list)):
            return len(a) == len(b) and all(self.veq(x, y) for x, y in zip(a, b))
        if isinstance(a, Event):
            return a.kind == b.kind and a.name == b.name and self.veq(a.args, b.args)
        try:
            return a == b
        except Exception:
            return False

    # ---------------------------------------------------------- liveness (for state comparison at joins)

    def live_in(self, fn, bb):
        tab = self._live.get(fn.name)
        if tab is None:
            tab = self._compute_liveness(fn)
            self._live[fn.name] = tab
        return tab.get(bb)

    def _compute_liveness(self, fn):
        parse_body(fn)
        addr_taken = set()

        def place_uses(pl, out):
            for p in pl.proj:
                if p[0] == 'index':
                    out.add(p[1])

        def op_uses(op, out):
            if op is not None and op.kind != 'const':
                out.add(op.place.local)
                place_uses(op.place, out)

        def rv_uses(rv, out):
            k = rv.kind
            if k == 'use':
                op_uses(rv.a, out)
            elif k in ('ref', 'rawref'):
                out.add(rv.a.local)
                place_uses(rv.a, out)
                if not any(p[0] == 'deref' for p in rv.a.proj):
                    addr_taken.add(rv.a.local)
            elif k == 'binop':
                op_uses(rv.b, out)
                op_uses(rv.c, out)
            elif k == 'unop':
                op_uses(rv.b, out)
            elif k == 'cast':
                op_uses(rv.a, out)
            elif k in ('discr', 'len'):
                out.add(rv.a.local)
                place_uses(rv.a, out)
            elif k == 'agg':
                for o in rv.b:
                    op_uses(o, out)
            elif k in ('repeat', 'box'):
                op_uses(rv.a, out)

        # per block: list of (uses, defs) in order
        info = {}
        succ = {}
        for b, blk in fn.blocks.items():
            if blk.cleanup or blk.term is None:
                continue
            steps = []
            for st in blk.stmts:
                u, d = set(), set()
                if st.kind == 'assign':
                    rv_uses(st.rv, u)
                    if st.place.proj:
                        u.add(st.place.local)
                        place_uses(st.place, u)
                    else:
                        d.add(st.place.local)
                elif st.kind == 'setdiscr':
                    u.add(st.place.local)
                elif st.kind == 'assume':
                    op_uses(st.rv, u)
                steps.append((u, d))
            t = blk.term
            u, d = set(), set()
            ss = []
            if t.kind == 'goto':
                ss = [t.target]
            elif t.kind == 'switch':
                op_uses(t.op, u)
                ss = [x for _, x in t.targets] + ([t.otherwise] if t.otherwise is not None else [])
            elif t.kind == 'assert':
                op_uses(t.op, u)
                ss = [t.target]
            elif t.kind == 'drop':
                ss = [t.target]
            elif t.kind == 'call':
                for a in t.args:
                    op_uses(a, u)
                ft = t.func.strip()
                if ft.startswith(('move _', 'copy _')):
                    m = re.match(r'^(?:move|copy) _(\d+)', ft)
                    if m:
                        u.add(int(m.group(1)))
                if t.place.proj:
                    u.add(t.place.local)
                    place_uses(t.place, u)
                else:
                    d.add(t.place.local)
                ss = [t.target] if t.target is not None else []
            elif t.kind == 'return':
                u.add(0)
            steps.append((u, d))
            info[b] = steps
            succ[b] = [x for x in ss if x in fn.blocks and not fn.blocks[x].cleanup]
        live_in = dict((b, frozenset()) for b in info)
        changed = True
        order = sorted(info.keys(), reverse=True)
        while changed:
            changed = False
            for b in order:
                live = set()
                for x in succ[b]:
                    live |= live_in.get(x, frozenset())
                for u, d in reversed(info[b]):
                    live -= d
                    live |= u
                fl = frozenset(live)
                if fl != live_in[b]:
                    live_in[b] = fl
                    changed = True
        at = frozenset(addr_taken)
        return dict((b, v | at) for b, v in live_in.items())

    def join_hint(self, st, fr):
        j = self.ipdom(fr.fn, fr.bb)
        if j is not None:
            return (fr.fid, j, len(st.frames), len(st.pc))
        if len(st.frames) >= 2 and fr.on_return is None and fr.ret_bb is not None:
            return (fr.fid, -1, len(st.frames), len(st.pc))
        return None

    def ipdom(self, fn, bb):
        """immediate post-dominator of block bb in fn's CFG (unwind edges ignored); None if it is the exit"""
        tab = self._ipdom.get(fn.name)
        if tab is None:
            tab = self._compute_ipdom(fn)
            self._ipdom[fn.name] = tab
        return tab.get(bb)

    def _compute_ipdom(self, fn):
        parse_body(fn)
        succ = {}
        EXIT = -1
        for b, blk in fn.blocks.items():
            if blk.cleanup or blk.term is None:
                continue
            t = blk.term
            if t.kind == 'goto':
                ss = [t.target]
            elif t.kind == 'switch':
                ss = [x for _, x in t.targets] + ([t.otherwise] if t.otherwise is not None else [])
            elif t.kind in ('call', 'drop', 'assert'):
                ss = [t.target] if t.target is not None else [EXIT]
            else:
                ss = [EXIT]
            ss = [x for x in ss if x == EXIT or (x in fn.blocks and not fn.blocks[x].cleanup)]
            succ[b] = ss or [EXIT]
        nodes = list(succ.keys()) + [EXIT]
        # iterative post-dominator sets (functions here have <= ~1500 blocks; use bitsets via python ints)
        idx = dict((n, i) for i, n in enumerate(nodes))
        full = (1 << len(nodes)) - 1
        pd = dict((n, full) for n in nodes)
        pd[EXIT] = 1 << idx[EXIT]
        changed = True
        order = sorted(succ.keys(), reverse=True)
        while changed:
            changed = False
            for n in order:
                m = full
                for x in succ[n]:
                    m &= pd[x]
                m |= 1 << idx[n]
                if m != pd[n]:
                    pd[n] = m
                    changed = True
        tab = {}
        for n in succ:
            cands = pd[n] & ~(1 << idx[n])
            # immediate post-dominator: the strict post-dominator that is post-dominated by all others
            best = None
            c = cands
            while c:
                low = c & -c
                i = low.bit_length() - 1
                c ^= low
                node = nodes[i]
                # node is ipdom iff pd[node] == cands (its own pdom set equals all strict pdoms of n)
                if pd[node] == cands:
                    best = node
                    break
            tab[n] = None if best in (None, EXIT) else best
        return tab

    def finish_frame(self, st, value):
        fr = st.frames.pop()
        # free the frame's locals (keeps states small and lets equal states compare equal)
        if not self._keep_locals:
            for n in fr.fn.locals:
                st.cells.pop((fr.fid, n), None)
        if fr.on_return is not None:
            fr.on_return(self, st, value)
            return
        if not st.frames:
            st.status = 'done'
            st.result = value
            return
        caller = st.frames[-1]
        if fr.dest is not None:
            cell, tpath = fr.dest
            self.store(st, cell, tpath, value)
        caller.bb = fr.ret_bb
        caller.idx = 0

    def run_path(self, st):
        """advance st until it terminates (returns None) or forks (returns list of states)"""
        steps = 0
        while st.status == 'running':
            if not st.frames:
                st.status = 'done'
                break
            fr = st.frames[-1]
            blk = fr.fn.blocks.get(fr.bb)
            if blk is None:
                raise Inconclusive('no block bb%d in %s' % (fr.bb, fr.fn.name[-60:]))
            if fr.idx == 0 and st.stops:
                sfid, sbb, sdepth, _ = st.stops[-1]
                if sbb == -1:
                    # join at the return of frame sfid: its caller (now on top) is about to resume
                    if len(st.frames) == sdepth - 1:
                        st.status = 'joined'
                        return None
                    if len(st.frames) < sdepth - 1:
                        st.status = 'escaped'
                        return None
                else:
                    if len(st.frames) == sdepth and fr.fid == sfid and fr.bb == sbb:
                        st.status = 'joined'
                        return None
                    if len(st.frames) < sdepth:
                        st.status = 'escaped'
                        return None
            if fr.idx == 0:
                v = fr.visits.get(fr.bb, 0) + 1
                fr.visits[fr.bb] = v
                if v > self.cfg['unroll']:
                    st.status = 'bound'
                    st.info = 'unroll bound %d hit at bb%d of %s' % (self.cfg['unroll'], fr.bb, fr.fn.name[-60:])
                    return None
            while fr.idx < len(blk.stmts):
                s = blk.stmts[fr.idx]
                fr.idx += 1
                self.exec_stmt(st, fr, s)
                steps += 1
            self.stats['steps'] += 1
            if self.stats['steps'] > self.cfg['max_steps'] * 50:
                raise Inconclusive('step budget exhausted')
            try:
                forks = self.exec_term(st, fr, blk.term)
            except Fork as fk:
                # raised by a model continuation (after a frame returned): alternatives act on the state
                forks = self.branch(st, [(c, (lambda k: (lambda s: k(s)))(k)) for c, k in fk.alts])
            if forks is not None:
                return forks
        return None

    def exec_stmt(self, st, fr, s):
        if s.kind == 'assign':
            cell, tpath, ty = self.resolve(st, fr, s.place)
            v = self.eval_rvalue(st, fr, s.rv, ty)
            self.store(st, cell, tpath, v)
            if self.cfg['trace_writes'] and isinstance(cell, str):
                st.trace.append(Event('write', cell, (tuple(k for k, _ in tpath), v)))
        elif s.kind == 'setdiscr':
            cell, tpath, ty = self.resolve(st, fr, s.place)
            self.store(st, cell, tpath + [('discr', None)], Sc(z3.IntVal(s.n), 'isize'))
        elif s.kind == 'assume':
            v = self.eval_operand(st, fr, s.rv)
            st.pc.append(self.as_bool(v))
        else:
            raise Inconclusive('statement kind ' + s.kind)

    def branch(self, st, alts):
        """alts: [(cond, apply(st))]; returns list of feasible successor states (or continues in place
        when exactly one is feasible: returns None after applying it to st)"""
        feas = []
        for cond, apply in alts:
            if cond is None:
                feas.append((cond, apply))
                continue
            c = z3.simplify(cond)
            if z3.is_false(c):
                continue
            if z3.is_true(c):
                feas.append((None, apply))
                continue
            r = self.check(st, [c])
            if r == 'unsat':
                continue
            if r == 'unknown':
                raise Inconclusive('solver unknown at branch')
            feas.append((c, apply))
        if not feas:
            st.status = 'infeasible'
            return []
        if len(feas) == 1:
            c, apply = feas[0]
            if c is not None:
                st.pc.append(c)
            res = self._apply_alt(st, apply)
            if len(res) == 1 and res[0] is st:
                return None
            return res
        outs = []
        if st.frames:
            f0 = st.frames[-1]
            k0 = (f0.fn.name[-60:], f0.bb)
            self.fork_sites[k0] = self.fork_sites.get(k0, 0) + 1
        for i, (c, apply) in enumerate(feas):
            s2 = st.clone() if i < len(feas) - 1 else st
            if c is not None:
                s2.pc.append(c)
            outs.extend(self._apply_alt(s2, apply))
        return outs

    def _apply_alt(self, s, apply):
        """apply one alternative to state s; a Fork raised while doing so (a model continuation that needs
        to branch again) is resolved on s itself"""
        try:
            apply(s)
            return [s]
        except Fork as fk:
            r = self.branch(s, [(c, (lambda k: (lambda x: k(x)))(k)) for c, k in fk.alts])
            return [s] if r is None else r

    def exec_term(self, st, fr, t):
        k = t.kind
        if k == 'goto':
            fr.bb, fr.idx = t.target, 0
            return None
        if k == 'return':
            v = self.load(st, (fr.fid, 0), [])
            if v is None:
                v = UNIT
            self.finish_frame(st, v)
            return None
        if k == 'switch':
            v = self.eval_operand(st, fr, t.op)
            if isinstance(v, Tree):
                v = self.discr_of(st, v)
            if not isinstance(v, Sc):
                raise Inconclusive('switchInt on %r' % (v,))
            alts = []

            def go(bb):
                def f(s):
                    f2 = s.frames[-1]
                    f2.bb, f2.idx = bb, 0
                return f
            if v.ty == 'bool':
                conds = []
                for val, bb in t.targets:
                    c = v.t if val != 0 else z3.Not(v.t)
                    conds.append(c)
                    alts.append((c, go(bb)))
                if t.otherwise is not None:
                    alts.append((z3.Not(z3.Or(*conds)) if conds else None, go(t.otherwise)))
            else:
                conds = []
                for val, bb in t.targets:
                    c = v.t == val
                    conds.append(c)
                    alts.append((c, go(bb)))
                if t.otherwise is not None and not self._is_unreachable(fr.fn, t.otherwise):
                    alts.append((z3.Not(z3.Or(*conds)) if conds else None, go(t.otherwise)))
            self._hint = self.join_hint(st, fr)
            return self.branch(st, alts)
        if k == 'unreachable':
            st.status = 'unreachable'
            return None
        if k == 'resume':
            st.status = 'unreachable'
            return None
        if k == 'drop':
            fr.bb, fr.idx = t.target, 0
            return None
        if k == 'assert':
            v = self.eval_operand(st, fr, t.op)
            c = self.as_bool(v)
            ok = c if t.expected else z3.Not(c)

            def cont(s):
                f2 = s.frames[-1]
                f2.bb, f2.idx = t.target, 0

            def panic(s):
                s.status = 'panic'
                s.info = 'assert failed: %s [%s line %d]' % (t.msg[:80], s.frames[-1].fn.name[-70:], t.line)
            return self.branch(st, [(ok, cont), (z3.Not(ok), panic)])
        if k == 'call':
            return self.exec_call(st, fr, t)
        raise Inconclusive('terminator ' + k)

    def _is_unreachable(self, fn, bb):
        b = fn.blocks.get(bb)
        return b is not None and not b.stmts and b.term is not None and b.term.kind == 'unreachable'

    # ---------------------------------------------------------- calls

    def find_def(self, key, selfty=None, trait=None, nargs=None):
        cands = self.defs.get(key)
        if not cands:
            return None
        cands = [c for c in cands if nargs is None or len(c.args) == nargs] or cands
        if len(cands) == 1:
            return cands[0]
        # duplicates: identical monomorphic copies or same-named methods of different impls
        hs = set(c.text_hash for c in cands)
        if len(hs) == 1:
            return cands[0]
        # same type name in several modules (common::App / protocol::response::App): the call names the module
        if selfty and '::' in selfty:
            mod = re.sub(r'<.*$', '', selfty.strip().lstrip('&')).rsplit('::', 1)[0]
            sub = [c for c in cands if c.name.startswith(mod + '::<impl') or ('::' + mod + '::<impl') in ('::' + c.name)]
            if sub and len(set(c.text_hash for c in sub)) == 1:
                return sub[0]
        return None

    def find_def_by_self(self, selfty, meth, nargs, dty):
        """methods generated by derives (typed-builder ...) are named after the derive position; find them
        by method name + type of the receiver / of the result"""
        sn = simple_name(selfty)
        cands = []
        for f in self.by_last.get(meth, ()):
            if len(f.args) != nargs:
                continue
            if any('_Error_Repeated_field_' in t for _, t in f.args):
                continue
            recv = simple_name(f.args[0][1]) if f.args else simple_name(f.ret)
            if recv == sn or (not f.args and simple_name(f.ret) == sn):
                cands.append(f)
        hs = set(c.text_hash for c in cands)
        if len(hs) == 1:
            return cands[0]
        return None

    def is_env_call(self, canon):
        key, selfty, trait, meth, raw = canon
        if trait is None or selfty is None:
            return False
        s = selfty.strip()
        s = re.sub(r"^&\s*('[a-z_]+\s+)?(mut\s+)?", '', s)
        if s in self.cfg['env_params'] or s.startswith('impl '):
            return True
        # associated types of env params: <PE as PolicyEngine>::TimeSource
        if s.startswith('<') and any(s.startswith('<%s as ' % p) for p in self.cfg['env_params']):
            return True
        return False

    def exec_call(self, st, fr, t):
        canon = self.canon_call(t.func)
        key = canon[0]
        args = None
        dcell, dpath, dty = self.resolve(st, fr, t.place)

        def ret(s, value):
            f2 = s.frames[-1]
            self.store(s, dcell, dpath, value)
            if t.target is None:
                s.status = 'diverged'
                s.info = 'call to diverging function %s' % key
            else:
                f2.bb, f2.idx = t.target, 0

        # indirect call through a local (closure / fn pointer)
        func_txt = t.func.strip()
        if func_txt.startswith(('move _', 'copy _')):
            fv = self.eval_operand(st, fr, Operand(func_txt[:4], parse_place_cached(func_txt[5:])))
            args = [self.eval_operand(st, fr, a) for a in t.args]
            return self.call_value(st, fv, args, (dcell, dpath), t.target, dty)
        args = [self.eval_operand(st, fr, a) for a in t.args]
        return self.dispatch(st, fr, canon, args, dty, ret, (dcell, dpath), t.target, t)

    def dispatch(self, st, fr, canon, args, dty, ret, dest, target, t=None):
        key, selfty, trait, meth, raw = canon
        # 1. models take precedence when registered for an exact key (used to cut abstraction boundaries)
        m = self.models.get(key)
        if m is None:
            for rx, fnm in self.model_patterns:
                if rx.search(raw) or rx.search(key):
                    m = fnm
                    break
        if m is not None:
            try:
                try:
                    v = m(self, st, args, dty, canon)
                except (AttributeError, TypeError, KeyError, IndexError, z3.Z3Exception) as e:
                    raise Inconclusive('model for %s failed: %r' % (raw[:120], e))
            except Fork as fk:
                alts = []
                for cond, cont in fk.alts:
                    def mk(cont):
                        def ap(s):
                            r = cont(s)
                            if r is not NOTHING:
                                ret(s, r)
                        return ap
                    alts.append((cond, mk(cont)))
                self._hint = self.join_hint(st, fr)
                return self.branch(st, alts)
            if v is PUSHED:
                # the model pushed a frame (closure call); it returns into dest via on_return/dest
                return None
            if v is NOTHING:
                return None
            ret(st, v)
            return None
        # 2. body in the dump
        if not self.is_env_call(canon):
            d = self.find_def(key, selfty, trait, len(args))
            if d is None and '::' in key:
                # Type::method with module-qualified type, or trait default method
                d = self.find_def(key.split('::', 1)[1] if key.count('::') > 1 else key, nargs=len(args))
            if d is not None and d.kind == 'fn':
                self.stats['calls_inlined'] += 1
                fr.bb = target if target is not None else fr.bb
                fr.idx = 0
                self.new_frame(st, d, args, dest=dest, ret_bb=target)
                return None
            if d is None and selfty and trait is None:
                d = self.find_def_by_self(selfty, meth, len(args), dty)
                if d is not None:
                    self.stats['calls_inlined'] += 1
                    fr.bb = target if target is not None else fr.bb
                    fr.idx = 0
                    self.new_frame(st, d, args, dest=dest, ret_bb=target)
                    return None
            # Future::poll of a coroutine value / closure call traits
            r = self.call_special(st, canon, args, dest, target, dty)
            if r is not NOTFOUND:
                return r
        else:
            # provided (default) trait methods with a body in the crate are executed, not abstracted
            d = self.find_def('%s::%s' % (simple_name(trait), meth), nargs=len(args))
            if d is not None and d.kind == 'fn':
                self.stats['calls_inlined'] += 1
                fr.bb = target if target is not None else fr.bb
                fr.idx = 0
                self.new_frame(st, d, args, dest=dest, ret_bb=target)
                return None
            # 3. environment
            return self.env_call(st, canon, args, dty, ret)
        # 4. havoc
        if self.strict_unknown_calls:
            raise Inconclusive('unknown call %s' % key)
        # an unknown call only havocs its return value; a callee whose whole effect is on its `&mut self`
        # argument must therefore not be passed over silently (seeded change C10-9: `events.dedup()`)
        if re.search(r'::(dedup|dedup_by|dedup_by_key|retain|retain_mut|sort|sort_by|sort_by_key|sort_unstable|sort_unstable_by|sort_unstable_by_key|reverse|drain|split_off|swap_remove|rotate_left|rotate_right)(::<.*>)?$', key):
            raise Inconclusive('in-place mutation %s has no model: its effect on the argument cannot be ignored' % key)
        self.stats['havocs'] += 1
        self.havoc_log[key] = self.havoc_log.get(key, 0) + 1
        nm = 'hv!%s:%d:%d' % (fr.fn.text_hash, fr.bb, fr.visits.get(fr.bb, 0))
        st.notes.append(('havoc', key))
        for a in args:
            if isinstance(a, Ptr) and self._is_mut_ptr_arg(a):
                pass
        ret(st, self.mk_sym(dty, nm))
        return None

    def _is_mut_ptr_arg(self, a):
        return False

    def env_call(self, st, canon, args, dty, ret):
        key = canon[0]
        nm = 'ev%d' % len(st.trace)
        snap = tuple(self.snapshot(st, a) for a in args)
        st.trace.append(Event('env', key, snap, nm, extra=dty))
        v = self.mk_sym(dty, nm)
        hook = self.cfg.get('env_assume')
        if hook is not None:
            hook(self, st, key, v, dty)
        eff = self.cfg.get('env_effect')
        if eff is not None:
            eff(self, st, key, args, nm)
        stop = self.cfg.get('stop_when')
        if stop is not None and stop(st, key):
            st.status = 'bound'
            st.info = 'exploration bound reached at ' + key
            return None
        ret(st, v)
        return None

    def snapshot(self, st, v, depth=0):
        """dereference pointers so that the event keeps the value seen at call time"""
        if isinstance(v, Ptr) and depth < 3:
            try:
                tv = self.load(st, v.cell, [(k, None) for k in v.path])
            except Inconclusive:
                return v
            return ('ref', v, tv)
        return v

    def call_value(self, st, fv, args, dest, target, dty):
        """call of a closure value"""
        fn = None
        if isinstance(fv, Ptr):
            tv = self.load(st, fv.cell, [(k, None) for k in fv.path])
        else:
            tv = fv
        if isinstance(tv, Tree) and tv.ty and tv.ty.startswith('{closure@'):
            fn = self.closures.get(tv.ty)
        if fn is None:
            raise Inconclusive('indirect call of %r' % (fv,))
        fr = st.frames[-1]
        fr.bb, fr.idx = target, 0
        self.new_frame(st, fn, [fv] + list(args), dest=dest, ret_bb=target)
        return None

    def _closure_ordinal(self, frame, ty):
        """index of the closure aggregate being executed among the aggregates of the same closure type in the
        creating function (block order, statement order)"""
        fn = frame.fn
        key = (fn.name, ty)
        tab = self._clo_ord.get(key)
        if tab is None:
            tab = []
            for b in sorted(fn.blocks):
                blk = fn.blocks[b]
                for i, stt in enumerate(blk.stmts):
                    if stt.kind == 'assign' and stt.rv.kind == 'agg' and isinstance(stt.rv.a, tuple) \
                            and re.sub(r' \(#\d+\)', '', stt.rv.a[1]) == ty:
                        tab.append((b, i))
            self._clo_ord[key] = tab
        cur = (frame.bb, frame.idx - 1)
        return tab.index(cur) if cur in tab else None

    def closure_fn_for(self, st, cv):
        """(Fn, self value to pass) for a closure value cv (by value or by reference)"""
        tv = cv
        n = 0
        while isinstance(tv, Ptr) and n < 4:
            tv = self.load(st, tv.cell, [(k, None) for k in tv.path])
            n += 1
        if isinstance(tv, Tree) and tv.ty:
            m = re.search(r'\{closure@[^}]*\}', tv.ty)
            if m:
                cands = self.closures_all.get(m.group(0)) or []
                if len(cands) > 1:
                    # macro-generated closures share one source position: use the creating function and
                    # the names of the captured variables
                    if isinstance(tv.meta, tuple) and tv.meta and tv.meta[0] == 'ret':
                        def norm(t):
                            return re.sub(r'\b(?:[a-z_]+::)+', '', t.replace(' ', ''))
                        c0 = [f for f in cands if norm(f.ret) == norm(tv.meta[1] or '')]
                        if c0:
                            cands = c0
                        tv = Tree(tv.f, tv.origin, tv.ty, None)
                    creator = tv.meta[0] if isinstance(tv.meta, tuple) else tv.meta
                    names = tv.meta[1] if isinstance(tv.meta, tuple) else None
                    ordinal = tv.meta[2] if isinstance(tv.meta, tuple) and len(tv.meta) > 2 else None
                    if creator:
                        c2 = [f for f in cands if f.name.startswith(creator + '::{closure#')] or cands
                        cands = c2
                    if len(cands) > 1 and names is not None:
                        for f in cands:
                            parse_body(f)
                        c3 = [f for f in cands if tuple(f.captures.get(i) for i in range(len(names))) == tuple(names)]
                        if c3:
                            cands = c3
                    if len(set(f.text_hash for f in cands)) > 1 and ordinal is not None:
                        # same position, same captures (macro-generated): the k-th such closure created in the
                        # function body is its k-th nested closure of that type
                        def num(f):
                            mm = re.search(r'\{closure#(\d+)\}$', f.name)
                            return int(mm.group(1)) if mm else 0
                        cs = sorted(cands, key=num)
                        if ordinal < len(cs):
                            cands = [cs[ordinal]]
                    if len(set(f.text_hash for f in cands)) > 1:
                        raise Inconclusive('ambiguous closure %s (%d bodies)' % (m.group(0)[:60], len(cands)))
                if cands:
                    return cands[0], tv
        return None, None

    def invoke_closure(self, st, cv, argvals, on_return):
        """push a frame running closure cv(argvals...) and call on_return(ex, st, value) afterwards"""
        fn, tv = self.closure_fn_for(st, cv)
        if fn is None:
            raise Inconclusive('cannot resolve closure %r' % (cv,))
        parse_body(fn)
        t0 = fn.args[0][1].strip()
        selfv = tv
        if t0.startswith('&'):
            # closure taken by reference: allocate a cell holding the closure value
            if isinstance(cv, Ptr):
                selfv = cv
            else:
                st.nfid += 1
                cell = (st.nfid, 'clo')
                st.cells[cell] = tv
                selfv = Ptr(cell, ())
        self.new_frame(st, fn, [selfv] + list(argvals), on_return=on_return)

    def call_special(self, st, canon, args, dest, target, dty):
        key, selfty, trait, meth, raw = canon
        fr = st.frames[-1]
        tr = simple_name(trait) if trait else None
        if tr == 'Future' and meth == 'poll':
            # arg0: Pin<&mut X> -> Tree{0: Ptr} or Ptr
            pin = args[0]
            p = pin.f.get(0) if isinstance(pin, Tree) else pin
            if isinstance(p, Ptr):
                fut = self.load(st, p.cell, [(k, None) for k in p.path])
                body = self.coroutine_body(fut)
                if body is not None:
                    fr.bb, fr.idx = target, 0
                    self.new_frame(st, body, [Tree({0: p}, None, 'Pin'), args[1]], dest=dest, ret_bb=target)
                    return None
        if tr in ('FnOnce', 'FnMut', 'Fn') and meth in ('call_once', 'call_mut', 'call'):
            fn, tv = self.closure_fn_for(st, args[0])
            if fn is not None:
                tup = args[1]
                n = len(fn.args) - 1
                argvals = [self.child(st, tup, i, fn.args[i + 1][1]) for i in range(n)]
                fr.bb, fr.idx = target, 0
                parse_body(fn)
                selfv = args[0] if fn.args[0][1].strip().startswith('&') == isinstance(args[0], Ptr) else tv
                if isinstance(selfv, Ptr):
                    # &mut &mut dyn FnMut: strip the extra reference levels down to the closure's own cell
                    inner = self.load(st, selfv.cell, [(k, None) for k in selfv.path])
                    while isinstance(inner, Ptr):
                        selfv = inner
                        inner = self.load(st, selfv.cell, [(k, None) for k in selfv.path])
                if fn.args[0][1].strip().startswith('&') and not isinstance(args[0], Ptr):
                    st.nfid += 1
                    cell = (st.nfid, 'clo')
                    st.cells[cell] = tv
                    selfv = Ptr(cell, ())
                self.new_frame(st, fn, [selfv] + argvals, dest=dest, ret_bb=target)
                return None
        return NOTFOUND

    def coroutine_body(self, fut):
        if isinstance(fut, Tree) and fut.ty and fut.ty.startswith('{coroutine@'):
            pos = fut.ty[len('{coroutine@'):-1]
            for pre in ('{async block@', '{async closure body@'):
                b = self.closures.get(pre + pos + '}')
                if b is not None:
                    return b
            if fut.meta and fut.meta in self.coro_of:
                return self.coro_of[fut.meta]
        return None


class _Tok:
    def __init__(self, n):
        self.n = n

    def __repr__(self):
        return self.n


PUSHED = _Tok('PUSHED')
NOTHING = _Tok('NOTHING')
NOTFOUND = _Tok('NOTFOUND')

_place_cache = {}


def parse_place_cached(s):
    from mir import parse_place
    p = _place_cache.get(s)
    if p is None:
        p = parse_place(s)
        _place_cache[s] = p
    return p
