"""Parser for rustc's `-Zunpretty=mir` text dump.

Produces, for every `fn` (and `const`/`static`/`promoted` body) of the dump, a small
AST: locals with types, basic blocks with statements and one terminator.  Anything
the parser does not understand raises MirSyntaxError naming the line; callers turn
that into INCONCLUSIVE (exit 2), never into a verdict.
"""
import re, hashlib


class MirSyntaxError(Exception):
    pass


OPEN = {'(': ')', '[': ']', '{': '}'}
CLOSE = {')', ']', '}'}


def _skip_char(s, i):
    """s[i] == "'": index after a char literal ('x', '\\n', '\\'', '"', '\\u{..}') starting here, or None if
    this quote starts a lifetime"""
    n = len(s)
    if s[max(0, i - 6):i] != 'const ' and not (i + 2 < n and s[i + 2] == "'"):
        return None
    j = i + 1
    if j < n and s[j] == '\\':
        j += 1
    j = s.find("'", j + 1)
    if 0 < j <= i + 12:
        return j + 1
    return None


def _skip_string(s, i):
    """s[i] == '"'; return index after the closing quote."""
    if i > 0 and s[i - 1] == "'" and i + 1 < len(s) and s[i + 1] == "'":
        return i + 1            # the char literal '"'
    i += 1
    n = len(s)
    while i < n:
        c = s[i]
        if c == '\\':
            i += 2
            continue
        if c == '"':
            return i + 1
        i += 1
    raise MirSyntaxError('unterminated string in: ' + s[:80])


def split_top(s, sep=','):
    """Split s at top-level `sep` (outside (), [], {}, <>, strings)."""
    out = []
    depth = 0
    ang = 0
    i = 0
    n = len(s)
    start = 0
    while i < n:
        c = s[i]
        if c == '"':
            i = _skip_string(s, i)
            continue
        if c == "'" and s[max(0, i - 6):i] == 'const ':
            # char literal
            j = i + 1
            if j < n and s[j] == '\\':
                j += 1
            j = s.find("'", j + 1)
            if j > 0:
                i = j + 1
                continue
        if c in OPEN:
            depth += 1
        elif c in CLOSE:
            depth -= 1
        elif c == '<':
            ang += 1
        elif c == '>':
            if i > 0 and s[i - 1] in '-=':
                pass
            elif ang > 0:
                ang -= 1
        elif depth == 0 and ang == 0 and s.startswith(sep, i):
            out.append(s[start:i].strip())
            i += len(sep)
            start = i
            continue
        i += 1
    last = s[start:].strip()
    if last or out:
        out.append(last)
    return out


def match_close(s, i):
    """s[i] is an opening bracket of ([{ ; return index of its partner."""
    depth = 0
    n = len(s)
    while i < n:
        c = s[i]
        if c == '"':
            i = _skip_string(s, i)
            continue
        if c == "'":
            j_ = _skip_char(s, i)
            if j_ is not None:
                i = j_
                continue
        if c in OPEN:
            depth += 1
        elif c in CLOSE:
            depth -= 1
            if depth == 0:
                return i
        i += 1
    raise MirSyntaxError('unbalanced: ' + s[:120])


def match_open_back(s, j):
    """s[j] is a closing bracket; return index of its partner scanning backwards.
    Strings are handled by a forward pre-pass."""
    # forward pass computing partner table is simplest and robust w.r.t. strings
    stack = []
    i = 0
    n = len(s)
    while i < n:
        c = s[i]
        if c == '"':
            i = _skip_string(s, i)
            continue
        if c == "'":
            j_ = _skip_char(s, i)
            if j_ is not None:
                i = j_
                continue
        if c in OPEN:
            stack.append(i)
        elif c in CLOSE:
            if not stack:
                raise MirSyntaxError('unbalanced: ' + s[:120])
            o = stack.pop()
            if i == j:
                return o
        i += 1
    raise MirSyntaxError('no partner: ' + s[:120])


# ---------------------------------------------------------------- places

class Place:
    """base local + list of projections.
    proj elements: ('deref',) | ('field', idx, ty) | ('downcast', name_or_int) |
                   ('index', local) | ('constindex', i, n, from_end) | ('subslice', a, b, from_end)"""
    __slots__ = ('local', 'proj')

    def __init__(self, local, proj):
        self.local = local
        self.proj = tuple(proj)

    def __repr__(self):
        return 'Place(_%d%s)' % (self.local, ''.join('.' + str(p) for p in self.proj))


def parse_place(s):
    s = s.strip()
    p, i = _parse_place(s, 0)
    if i != len(s):
        raise MirSyntaxError('trailing text after place: %r' % s)
    return p


_local_re = re.compile(r'_(\d+)')


def _parse_place(s, i):
    n = len(s)
    if s[i] == '_':
        m = _local_re.match(s, i)
        if not m:
            raise MirSyntaxError('bad local in place: %r' % s)
        local = int(m.group(1))
        proj = []
        i = m.end()
    elif s[i] == '(':
        if s[i + 1] == '*':
            inner, j = _parse_place(s, i + 2)
            if s[j] != ')':
                raise MirSyntaxError('bad deref: %r' % s)
            local, proj = inner.local, list(inner.proj) + [('deref',)]
            i = j + 1
        else:
            inner, j = _parse_place(s, i + 1)
            local, proj = inner.local, list(inner.proj)
            if s.startswith(' as ', j):
                k = match_close(s, i)
                var = s[j + 4:k].strip()
                m = re.fullmatch(r'variant#(\d+)', var)
                proj.append(('downcast', int(m.group(1)) if m else var))
                i = k + 1
            elif s[j] == '.':
                m = re.match(r'\.(\d+): ', s[j:])
                if not m:
                    raise MirSyntaxError('bad field proj: %r' % s[j:j + 40])
                k = match_close(s, i)
                ty = s[j + m.end():k].strip()
                proj.append(('field', int(m.group(1)), ty))
                i = k + 1
            else:
                raise MirSyntaxError('bad paren place: %r' % s[i:i + 60])
    else:
        raise MirSyntaxError('bad place: %r' % s[i:i + 60])
    # postfix index
    while i < n and s[i] == '[':
        k = match_close(s, i)
        inner = s[i + 1:k]
        m = re.fullmatch(r'_(\d+)', inner)
        if m:
            proj.append(('index', int(m.group(1))))
        else:
            m = re.fullmatch(r'(-?)(\d+) of (\d+)', inner)
            if m:
                proj.append(('constindex', int(m.group(2)), int(m.group(3)), m.group(1) == '-'))
            else:
                m = re.fullmatch(r'(\d+):(-?)(\d*)', inner) or re.fullmatch(r'(\d+)\.\.(-?)(\d*)', inner)
                if m:
                    proj.append(('subslice', int(m.group(1)), m.group(3), m.group(2) == '-'))
                else:
                    raise MirSyntaxError('bad index: %r' % inner)
        i = k + 1
    return Place(local, proj), i


# ---------------------------------------------------------------- operands

class Operand:
    """kind: 'copy' | 'move' | 'const'.  For const: .text (after `const `)."""
    __slots__ = ('kind', 'place', 'text')

    def __init__(self, kind, place=None, text=None):
        self.kind = kind
        self.place = place
        self.text = text

    def __repr__(self):
        return 'Op(%s %s)' % (self.kind, self.place if self.place else self.text)


def parse_operand(s):
    s = s.strip()
    if s.startswith('copy '):
        return Operand('copy', parse_place(s[5:]))
    if s.startswith('move '):
        return Operand('move', parse_place(s[5:]))
    if s.startswith('const '):
        return Operand('const', text=s[6:].strip())
    if re.match(r'^[A-Za-z_<{]', s):
        return Operand('const', text=s)      # function item / constructor used as a value
    raise MirSyntaxError('bad operand: %r' % s[:100])


BINOPS = {'Eq', 'Ne', 'Lt', 'Le', 'Gt', 'Ge', 'Add', 'Sub', 'Mul', 'Div', 'Rem', 'BitAnd', 'BitOr',
          'BitXor', 'Shl', 'Shr', 'AddWithOverflow', 'SubWithOverflow', 'MulWithOverflow', 'Offset',
          'Cmp', 'AddUnchecked', 'SubUnchecked', 'MulUnchecked', 'ShlUnchecked', 'ShrUnchecked'}
UNOPS = {'Not', 'Neg', 'PtrMetadata'}


class Rvalue:
    """kind in: use, ref, rawref, binop, unop, cast, discr, agg, len, repeat, copyforderef, nullop, box"""
    __slots__ = ('kind', 'a', 'b', 'c', 'd')

    def __init__(self, kind, a=None, b=None, c=None, d=None):
        self.kind, self.a, self.b, self.c, self.d = kind, a, b, c, d

    def __repr__(self):
        return 'Rv(%s %r %r %r)' % (self.kind, self.a, self.b, self.c)


_cast_re = re.compile(r'^(.*) as (.*) \(([A-Za-z]+(?:\(.*\))?)\)$')


def parse_rvalue(s):
    s = s.strip()
    if s.startswith(('copy ', 'move ', 'const ')):
        # plain use, or cast `copy _1 as T (Kind)`
        m = _cast_re.match(s)
        if m and not s.startswith('const "'):
            try:
                op = parse_operand(m.group(1))
                return Rvalue('cast', op, m.group(2).strip(), m.group(3))
            except MirSyntaxError:
                pass
        return Rvalue('use', parse_operand(s))
    if s.startswith('no_retag '):
        return parse_rvalue(s[len('no_retag '):])
    if s.startswith('&raw const '):
        return Rvalue('rawref', parse_place(s[11:]), False)
    if s.startswith('&raw mut '):
        return Rvalue('rawref', parse_place(s[9:]), True)
    if s.startswith('&mut '):
        return Rvalue('ref', parse_place(s[5:]), True)
    if s.startswith('&fake shallow '):
        return Rvalue('ref', parse_place(s[len('&fake shallow '):]), False)
    if s.startswith('&'):
        return Rvalue('ref', parse_place(s[1:]), False)
    m = re.match(r'^([A-Za-z]+)\(', s)
    if m and s.endswith(')') and match_close(s, m.end() - 1) == len(s) - 1:
        name = m.group(1)
        inner = s[m.end():-1]
        if name in BINOPS:
            a, b = split_top(inner)
            return Rvalue('binop', name, parse_operand(a), parse_operand(b))
        if name in UNOPS:
            return Rvalue('unop', name, parse_operand(inner))
        if name == 'discriminant':
            return Rvalue('discr', parse_place(inner))
        if name == 'Len':
            return Rvalue('len', parse_place(inner))
        if name == 'CopyForDeref':
            return Rvalue('use', Operand('copy', parse_place(inner)))
        if name in ('SizeOf', 'AlignOf', 'UbChecks', 'ContractChecks', 'OffsetOf'):
            return Rvalue('nullop', name, inner)
        if name == 'ShallowInitBox':
            a, b = split_top(inner)
            return Rvalue('box', parse_operand(a), b)
    # aggregates
    if s.startswith('(') and match_close(s, 0) == len(s) - 1:
        inner = s[1:-1].strip()
        parts = split_top(inner) if inner else []
        if len(parts) >= 1 and parts[-1] == '':
            parts = parts[:-1]      # 1-tuple `(x,)`
        return Rvalue('agg', 'tuple', [parse_operand(p) for p in parts])
    if s.startswith('[') and match_close(s, 0) == len(s) - 1:
        inner = s[1:-1].strip()
        rep = split_top(inner, ';')
        if len(rep) == 2:
            return Rvalue('repeat', parse_operand(rep[0]), rep[1].strip())
        parts = split_top(inner) if inner else []
        return Rvalue('agg', 'array', [parse_operand(p) for p in parts])
    # Path { f: op, .. } | Path(op, ..) | Path   (struct / variant / closure / coroutine)
    if s.endswith('}') and not s.startswith('{') or (s.startswith('{') and s.endswith('}')):
        # find the field block: last top-level `{...}` preceded by a space, if it ends the string
        o = match_open_back(s, len(s) - 1)
        head = s[:o].strip()
        if head and o > 0:
            body = s[o + 1:-1].strip()
            fields = []
            for part in (split_top(body) if body else []):
                if not part:
                    continue
                m = re.match(r'^([A-Za-z_0-9]+): (.*)$', part)
                if not m:
                    raise MirSyntaxError('bad struct field: %r' % part[:80])
                fields.append((m.group(1), parse_operand(m.group(2))))
            return Rvalue('agg', ('adt', head), [f[1] for f in fields], [f[0] for f in fields])
        # `{closure@...}` with no captures
        return Rvalue('agg', ('adt', s), [], [])
    if s.endswith(')'):
        o = match_open_back(s, len(s) - 1)
        head = s[:o].strip()
        inner = s[o + 1:-1].strip()
        parts = split_top(inner) if inner else []
        return Rvalue('agg', ('adt', head), [parse_operand(p) for p in parts], None)
    if re.match(r'^[A-Za-z_<{]', s):
        return Rvalue('agg', ('adt', s), [], None)
    raise MirSyntaxError('bad rvalue: %r' % s[:120])


# ---------------------------------------------------------------- statements / terminators

class Stmt:
    __slots__ = ('kind', 'place', 'rv', 'n', 'line')

    def __init__(self, kind, place=None, rv=None, n=None, line=0):
        self.kind, self.place, self.rv, self.n, self.line = kind, place, rv, n, line


class Term:
    """kind: goto(target) | switch(op, [(val,bb)], otherwise) | return | unreachable | resume |
    drop(place, target) | call(dest, func, args, target) | assert(cond_op, expected, msg, target)"""
    __slots__ = ('kind', 'op', 'targets', 'otherwise', 'target', 'place', 'func', 'args', 'expected',
                 'msg', 'line', 'unwind')

    def __init__(self, kind, **kw):
        self.kind = kind
        for k in ('op', 'targets', 'otherwise', 'target', 'place', 'func', 'args', 'expected', 'msg',
                  'line', 'unwind'):
            setattr(self, k, kw.get(k))


_bb_re = re.compile(r'bb(\d+)')


def _targets(s):
    """parse `[return: bb1, unwind: bb2]` / `[success: bb1, unwind continue]` / `bb3` / `unwind continue`"""
    s = s.strip()
    ret = None
    unwind = None
    if s.startswith('['):
        for part in split_top(s[1:-1]):
            if part.startswith(('return:', 'success:')):
                ret = int(_bb_re.search(part).group(1))
            elif part.startswith('unwind'):
                m = _bb_re.search(part)
                unwind = int(m.group(1)) if m else part
    else:
        m = _bb_re.match(s)
        if m:
            ret = int(m.group(1))
        else:
            unwind = s
    return ret, unwind


def split_assign(s):
    """split `PLACE = RHS` at the first top-level ` = `."""
    depth = 0
    i = 0
    n = len(s)
    while i < n:
        c = s[i]
        if c == '"':
            i = _skip_string(s, i)
            continue
        if c == "'":
            j_ = _skip_char(s, i)
            if j_ is not None:
                i = j_
                continue
        if c in OPEN:
            depth += 1
        elif c in CLOSE:
            depth -= 1
        elif depth == 0 and s.startswith(' = ', i):
            return s[:i], s[i + 3:]
        i += 1
    return None, None


def parse_line(s, line):
    """returns Stmt or Term"""
    if s.startswith('goto -> '):
        return Term('goto', target=int(_bb_re.search(s).group(1)), line=line)
    if s.startswith('switchInt('):
        k = match_close(s, len('switchInt'))
        op = parse_operand(s[len('switchInt('):k])
        rest = s[k + 1:].strip()
        assert rest.startswith('-> [') and rest.endswith('];'), s
        tg = []
        other = None
        for part in split_top(rest[4:-2]):
            a, b = part.split(':')
            bb = int(_bb_re.search(b).group(1))
            if a.strip() == 'otherwise':
                other = bb
            else:
                tg.append((int(a.strip()), bb))
        return Term('switch', op=op, targets=tg, otherwise=other, line=line)
    if s == 'return;':
        return Term('return', line=line)
    if s == 'unreachable;':
        return Term('unreachable', line=line)
    if s in ('resume;', 'coroutine_drop;') or s.startswith('terminate'):
        return Term('resume', line=line)
    if s.startswith('drop('):
        k = match_close(s, 4)
        place = parse_place(s[5:k])
        rest = s[k + 1:].strip().rstrip(';')
        assert rest.startswith('-> '), s
        ret, unwind = _targets(rest[3:])
        return Term('drop', place=place, target=ret, line=line)
    if s.startswith('assert('):
        k = match_close(s, 6)
        inner = split_top(s[7:k])
        cond = inner[0]
        expected = True
        if cond.startswith('!'):
            expected = False
            cond = cond[1:]
        rest = s[k + 1:].strip().rstrip(';')
        ret, unwind = _targets(rest[3:])
        return Term('assert', op=parse_operand(cond), expected=expected, msg=inner[1] if len(inner) > 1 else '',
                    target=ret, line=line)
    if s.startswith(('StorageLive(', 'StorageDead(', 'nop', 'Retag(', 'FakeRead(', 'PlaceMention(',
                     'AscribeUserType(', 'Coverage', 'ConstEvalCounter', 'BackwardIncompatibleDropHint')):
        return Stmt('nop', line=line)
    if s.startswith('deinit('):
        return Stmt('nop', line=line)
    if s.startswith('assume('):
        return Stmt('assume', rv=parse_operand(s[7:match_close(s, 6)]), line=line)
    if s.startswith('discriminant('):
        k = match_close(s, len('discriminant'))
        rest = s[k + 1:].strip().rstrip(';')
        if rest.startswith('= '):
            return Stmt('setdiscr', place=parse_place(s[len('discriminant('):k]), n=int(rest[2:]), line=line)
    lhs, rhs = split_assign(s)
    if lhs is None:
        raise MirSyntaxError('line %d: unknown statement %r' % (line, s[:120]))
    rhs = rhs.rstrip()
    assert rhs.endswith(';'), s
    rhs = rhs[:-1]
    # call?  `FUNC(ARGS) -> [return: bbN, unwind ...]` or `-> unwind continue` or `-> bbN`
    m = re.search(r'\) -> (\[.*\]|bb\d+|unwind [a-z]+)$', rhs)
    if m:
        close = m.start()
        o = match_open_back(rhs, close)
        func = rhs[:o].strip()
        args_s = rhs[o + 1:close].strip()
        args = [parse_operand(a) for a in split_top(args_s)] if args_s else []
        ret, unwind = _targets(m.group(1))
        return Term('call', place=parse_place(lhs), func=func, args=args, target=ret, line=line, unwind=unwind)
    return Stmt('assign', place=parse_place(lhs), rv=parse_rvalue(rhs), line=line)


class Block:
    __slots__ = ('stmts', 'term', 'cleanup')

    def __init__(self):
        self.stmts = []
        self.term = None
        self.cleanup = False


class Fn:
    def __init__(self, name, kind):
        self.name = name
        self.kind = kind            # 'fn' | 'const' | 'static'
        self.args = []              # [(local, ty)]
        self.ret = None
        self.locals = {}            # n -> ty
        self.blocks = {}
        self.line = 0
        self.text_hash = None
        self.nlines = 0
        self.value_text = None      # for `const X: T = const V;`
        self.captures = {}          # closure bodies: captured field index -> source name
        self.named = set()          # locals that carry a user variable name (debug info)
        self.parsed = False
        self._raw = None


_hdr_fn = re.compile(r'^fn (.*)$')
_let_re = re.compile(r'^let (mut )?_(\d+): (.*);$')


def _parse_header(fn, hdr):
    # hdr: text after 'fn ' up to and including ' {'
    assert hdr.endswith(' {'), hdr
    hdr = hdr[:-2]
    # find the argument list: the first top-level '(' that starts with '_1: ' or is '()'
    i = 0
    n = len(hdr)
    depth = 0
    pos = None
    while i < n:
        c = hdr[i]
        if c == '(' and depth == 0 and (hdr.startswith('(_1: ', i) or hdr.startswith('() -> ', i) or hdr.endswith('()') and i == n - 2):
            pos = i
            break
        if c in OPEN:
            k = match_close(hdr, i)
            i = k + 1
            continue
        i += 1
    if pos is None:
        raise MirSyntaxError('cannot find args in header: ' + hdr[:150])
    fn.name = hdr[:pos]
    k = match_close(hdr, pos)
    args_s = hdr[pos + 1:k]
    for a in (split_top(args_s) if args_s.strip() else []):
        m = re.match(r'^_(\d+): (.*)$', a)
        if not m:
            raise MirSyntaxError('bad arg %r in %s' % (a, fn.name))
        fn.args.append((int(m.group(1)), m.group(2)))
        fn.locals[int(m.group(1))] = m.group(2)
    rest = hdr[k + 1:].strip()
    fn.ret = rest[3:].strip() if rest.startswith('-> ') else '()'


def parse_body(fn):
    """parse the statements of fn lazily (most of the 1900 bodies are never executed)"""
    if fn.parsed:
        return fn
    cur = None
    for ln, raw in fn._raw:
        s = raw.strip()
        if s.startswith('debug '):
            m2 = re.match(r'^debug ([A-Za-z_0-9]+) => _(\d+);', s)
            if m2:
                fn.named.add(int(m2.group(2)))
            m = re.match(r'^debug ([A-Za-z_0-9]+) => .*?\(\*?_1\)?\.(\d+)', s)
            if m and '(*_1)' in s.split('=>')[1][:12] or (m and s.split('=> ')[1].startswith(('(_1.', '((*_1).', '(*((*_1).', '(*(_1.'))):
                fn.captures.setdefault(int(m.group(2)), m.group(1))
            continue
        if not s or s.startswith(('scope ', '}')):
            continue
        m = _let_re.match(s)
        if m:
            fn.locals[int(m.group(2))] = m.group(3)
            continue
        m = re.match(r'^bb(\d+)( \(cleanup\))?: \{$', s)
        if m:
            cur = Block()
            cur.cleanup = bool(m.group(2))
            fn.blocks[int(m.group(1))] = cur
            continue
        if cur is None:
            raise MirSyntaxError('line %d: statement outside block: %r' % (ln, s[:100]))
        if cur.cleanup:
            continue            # unwinding paths are not executed
        item = parse_line(s, ln)
        if isinstance(item, Term):
            cur.term = item
        else:
            if item.kind != 'nop':
                cur.stmts.append(item)
    fn.parsed = True
    fn._raw = None
    return fn


def load(path):
    """returns dict name -> [Fn] (names are not unique: monomorphic duplicates, promoteds)"""
    fns = {}
    order = []
    with open(path) as f:
        lines = f.read().split('\n')
    i = 0
    n = len(lines)
    while i < n:
        l = lines[i]
        if l.startswith('fn '):
            fn = Fn(None, 'fn')
            fn.line = i + 1
            _parse_header(fn, l[3:])
        elif l.startswith(('const ', 'static ')):
            kind = 'const' if l.startswith('const ') else 'static'
            body = l[len(kind) + 1:]
            if body.startswith('mut '):
                body = body[4:]
            fn = Fn(None, kind)
            fn.line = i + 1
            # `NAME: TYPE = {`  or `NAME: TYPE = const V;`
            # NAME may contain `<impl at f:1:2: 3:4>`: split at the first `: ` outside brackets
            d = 0
            cut = None
            for k, ch in enumerate(body):
                if ch in '<([{':
                    d += 1
                elif ch in ')]}' or (ch == '>' and body[k - 1] not in '-='):
                    d -= 1
                elif d == 0 and body.startswith(': ', k):
                    cut = k
                    break
            m = re.match(r'^(.*) = (\{|const .*;)$', body[cut + 2:]) if cut is not None else None
            if not m:
                raise MirSyntaxError('line %d: bad const header %r' % (i + 1, l[:120]))
            fn.name = body[:cut]
            fn.ret = m.group(1)
            fn.locals[0] = fn.ret
            if m.group(2) != '{':
                fn.value_text = m.group(2)[6:-1]
                fn.parsed = True
                fns.setdefault(fn.name, []).append(fn)
                order.append(fn)
                i += 1
                continue
        else:
            i += 1
            continue
        j = i + 1
        raw = []
        while j < n and lines[j] != '}':
            raw.append((j + 1, lines[j]))
            j += 1
        fn._raw = raw
        fn.nlines = j - i + 1
        fn.text_hash = hashlib.sha1('\n'.join(lines[i:j + 1]).encode()).hexdigest()[:12]
        fns.setdefault(fn.name, []).append(fn)
        order.append(fn)
        i = j + 1
    return fns, order


if __name__ == '__main__':
    import sys, time
    t = time.time()
    fns, order = load(sys.argv[1])
    bad = 0
    for fn in order:
        try:
            parse_body(fn)
        except (MirSyntaxError, AssertionError, ValueError, TypeError) as e:
            bad += 1
            if bad < 30:
                print('FAIL', fn.name[:100], '::', repr(e)[:300])
    print(len(order), 'bodies,', bad, 'failed,', round(time.time() - t, 1), 's')
