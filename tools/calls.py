#!/usr/bin/env python3
"""list the call sites reachable from a function with their resolution class"""
import sys, os, re, collections
sys.path.insert(0, os.path.join(os.path.dirname(os.path.abspath(__file__)), '..', 'mirsym'))
from engine import *
import models
try:
    import smodels
except ImportError:
    smodels = None
from mir import parse_body
ex = Executor('/verif/.scratch/omaha.mir', '/repo/omaha-client/src')
models.install(ex)
if smodels: smodels.install(ex); smodels.cut_persist(ex)
roots = [f for f in ex.order if f.kind == 'fn' and any(f.name.endswith(a) for a in sys.argv[1:])]
seen = set(); todo = list(roots); cls = collections.OrderedDict()
while todo:
    fn = todo.pop()
    if fn.name in seen: continue
    seen.add(fn.name)
    parse_body(fn)
    for bb in fn.blocks.values():
        t = bb.term
        if t is None or t.kind != 'call': continue
        c = ex.canon_call(t.func)
        key = c[0]
        m = ex.models.get(key)
        if m is None:
            for rx, f in ex.model_patterns:
                if rx.search(c[4]) or rx.search(key): m = f; break
        if m is not None: k = 'model'
        elif ex.is_env_call(c):
            d = ex.find_def('%s::%s' % (simple_name(c[2]), c[3]))
            k = 'env' if d is None else 'inline'
            if d is not None: todo.append(d)
        else:
            d = ex.find_def(key, nargs=len(t.args))
            if d is None and key.count('::') > 1: d = ex.find_def(key.split('::', 1)[1], nargs=len(t.args))
            if d is not None: k = 'inline'; todo.append(d)
            elif 'Future>::poll' in key or 'as Future' in c[4]: k = 'poll'
            elif re.search(r'as Fn(Once|Mut)?<', c[4]): k = 'closurecall'
            else: k = 'HAVOC'
        cls.setdefault((k, key), []).append(fn.name[-50:])
    # closures & coroutine bodies nested in this fn
    for g in ex.order:
        if g.kind == 'fn' and g.name.startswith(fn.name + '::{closure#') and g.name not in seen:
            if 'tracing' in (g.args[0][1] if g.args else ''): continue
            todo.append(g)
for (k, key), where in sorted(cls.items()):
    print('%-11s %-90s %d' % (k, key[:90], len(where)))
