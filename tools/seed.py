#!/usr/bin/env python3
"""seed.py <worktree> <MUTk> <prop id> <check ids...>
Independently confirms a seeded change (compiles, existing tests pass, demo fails with it and passes
without), runs the listed checks on /repo with the change applied, undoes it, and files the result
under /verif/seeded/<prop>-<k>/."""
import sys, os, subprocess, json, re, shutil, time
INWT = '--in-worktree' in sys.argv
SKIPCONFIRM = '--skip-confirm' in sys.argv
argv = [a for a in sys.argv if not a.startswith('--')]
wt, mut, pid = argv[1], argv[2], argv[3]
checks = argv[4:]
md = os.path.join(wt, mut)
patch = os.path.join(md, 'patch.diff')
demo = os.path.join(md, 'demo.diff')
meta_txt = open(os.path.join(md, 'meta.txt')).read() if os.path.exists(os.path.join(md, 'meta.txt')) else ''


def sh(cmd, cwd=None, timeout=3000):
    r = subprocess.run(cmd, shell=True, cwd=cwd, capture_output=True, text=True, timeout=timeout)
    return r.returncode, (r.stdout + r.stderr)


def clean():
    sh('git checkout -- . && git clean -fdq -e "MUT*" -e target', cwd=wt)


def test_names():
    d = open(demo).read()
    names = re.findall(r'^\+\s*(?:async\s+)?fn\s+(test_[A-Za-z0-9_]+|[a-z0-9_]*test[a-z0-9_]*)\s*\(', d, re.M)
    return names

res = {'property': pid, 'mutant': mut, 'source': wt}
k = re.sub(r'\D', '', mut) or '1'
dst = os.path.join('/verif/seeded', '%s-%s' % (pid, k))
old = json.load(open(os.path.join(dst, 'meta.json'))) if os.path.exists(os.path.join(dst, 'meta.json')) else None
clean()
if SKIPCONFIRM and old:
    res = dict(old)
else:
  if True:
    # 1. patch alone: existing suite passes
    rc, out = sh('git apply %s' % patch, cwd=wt)
    res['patch_applies'] = rc == 0
    rc, out = sh('cargo test --offline --workspace --no-fail-fast 2>&1 | grep "test result"', cwd=wt)
    mm = re.findall(r'test result: (\w+)\. (\d+) passed; (\d+) failed', out)
    res['suite_with_patch'] = 'workspace: %d passed, %d failed' % (sum(int(x[1]) for x in mm), sum(int(x[2]) for x in mm))
    suite_ok = bool(mm) and all(x[0] == 'ok' for x in mm) and sum(int(x[1]) for x in mm) >= 248
    # 2. patch + demo: demo fails
    rc, out = sh('git apply %s' % demo, cwd=wt)
    res['demo_applies'] = rc == 0
    names = test_names()
    res['demo_tests'] = names
    filt = names[0] if names else ''
    rc, out = sh('cargo test --offline -p omaha_client %s 2>&1 | tail -15' % filt, cwd=wt)
    m2 = re.findall(r'test result: (\w+)\. (\d+) passed; (\d+) failed', out)
    res['demo_with_patch'] = m2
    fails_with = any(x[0] == 'FAILED' or int(x[2]) > 0 for x in m2)
    clean()
    # 3. demo alone: passes
    sh('git apply %s' % demo, cwd=wt)
    rc, out = sh('cargo test --offline -p omaha_client %s 2>&1 | tail -15' % filt, cwd=wt)
    m3 = re.findall(r'test result: (\w+)\. (\d+) passed; (\d+) failed', out)
    res['demo_without_patch'] = m3
    passes_without = bool(m3) and all(x[0] == 'ok' for x in m3) and any(int(x[1]) > 0 for x in m3)
    clean()
    res['confirmed'] = bool(res['patch_applies'] and suite_ok and fails_with and passes_without)
    print('confirmed=%s suite=%s demo_with=%s demo_without=%s' % (res['confirmed'], res['suite_with_patch'], m2, m3), flush=True)
filt = (res.get('demo_tests') or [''])[0]
# 4. my checks on /repo with the change
det = {}
target = wt if INWT else '/repo'
envp = ''
if INWT:
    scr = '/tmp/scr_' + os.path.basename(wt)
    if not os.path.isdir(scr):
        os.makedirs(scr)
        for d in ('mir-target', 'replay-target', 'kani-target'):
            if os.path.isdir('/verif/.scratch/' + d):
                sh('cp -r /verif/.scratch/%s %s/' % (d, scr))
    envp = 'VERIF_REPO=%s VERIF_SCRATCH=%s VERIF_OUT=%s ' % (wt, scr, scr)
rc, out = sh('git -C %s apply %s' % (target, patch))
if rc != 0:
    print('patch does not apply to %s:' % target, out[-300:])
else:
    try:
        for c in checks:
            t = time.time()
            rc, out = sh(envp + './check %s' % c, cwd=os.environ.get('VERIF_HOME', '/verif'))
            lines = [l for l in out.split('\n') if l.startswith(('VIOLATED', 'INCONCLUSIVE ', 'VIOLATION'))]
            det[c] = {'exit': rc, 'wall_s': round(time.time() - t), 'lines': [l[:300] for l in lines[:4]]}
            print('  check %s exit=%d %ds %s' % (c, rc, time.time() - t, ' | '.join(l[:140] for l in lines[:2])), flush=True)
    finally:
        if INWT:
            clean()
        else:
            sh('git -C /repo checkout -- .')
hist = res.get('history', [])
if old and old.get('checks'):
    hist.append({'checks': old['checks'], 'caught_by': old.get('caught_by'), 'verif_rev': old.get('verif_rev')})
res['history'] = hist
res['checks'] = det
res['checked_on'] = 'a worktree of /repo at the same commit with patch.diff applied (VERIF_REPO)' if INWT else '/repo with patch.diff applied'
res['verif_rev'] = sh('git -C /verif rev-parse --short HEAD')[1].strip() + '+wip'
res['caught_by'] = [c for c, v in det.items() if v['exit'] == 1]
os.makedirs(dst, exist_ok=True)
shutil.copy(patch, os.path.join(dst, 'patch.diff'))
shutil.copy(demo, os.path.join(dst, 'demo.diff'))
res['needs_to_manifest'] = meta_txt[:3000]
res['what_i_ran'] = ['git apply patch.diff; cargo test --offline --workspace   (suite must pass)',
                     'git apply demo.diff; cargo test --offline -p omaha_client %s   (must fail)' % filt,
                     'demo.diff alone; same command (must pass)',
                     'git -C /repo apply patch.diff; ./check <id>; git -C /repo checkout -- .']
json.dump(res, open(os.path.join(dst, 'meta.json'), 'w'), indent=1)
print('filed under', dst, 'caught_by', res['caught_by'])
