#!/usr/bin/env python3
"""Regenerates seeded/README.md from seeded/*/meta.json."""
import json, os, glob, re
V = os.path.dirname(os.path.dirname(os.path.abspath(__file__)))
ANTICIPATED = {'C01-3', 'C03-3', 'C03-4', 'C11-3', 'C11-4', 'C14-3', 'C14-4', 'C05-3', 'C09-4', 'C04-3'}
# wave 2 changes for which an obligation was added after reading the agent's summary, before the checks first ran on them
rows = []
for d in sorted(glob.glob(os.path.join(V, 'seeded', '*', 'meta.json'))):
    m = json.load(open(d))
    name = os.path.basename(os.path.dirname(d))
    patch = open(os.path.join(os.path.dirname(d), 'patch.diff')).read()
    files = sorted(set(re.findall(r'^\+\+\+ b/(\S+)', patch, re.M)))
    need = ' '.join((m.get('needs_to_manifest') or '').split())
    need = need[:330] + ('…' if len(need) > 330 else '')
    hist = m.get('history') or []
    first = None
    for h in hist:
        if h.get('checks'):
            first = h
            break
    if first is None:
        first = {'checks': m.get('checks') or {}, 'caught_by': m.get('caught_by')}
    first_txt = ''
    if first is not None:
        fc = first.get('caught_by') or []
        first_txt = 'caught by %s' % ', '.join(fc) if fc else 'missed (%s)' % ', '.join('%s exit %s' % (c, v.get('exit')) for c, v in first['checks'].items())
    lines = []
    for c, v in (m.get('checks') or {}).items():
        l = [x for x in v.get('lines', []) if x.startswith('VIOLATED')]
        ob = l[0].split()[1] if l else ''
        lines.append('%s%s' % (c, (' `%s`' % ob) if ob and v.get('exit') == 1 else (' (exit %s)' % v.get('exit'))))
    wave = {1: 1, 2: 1, 3: 2, 4: 2, 5: 3, 6: 3, 7: 4, 8: 4}.get(int(name.split('-')[1]), 0)
    if name in ANTICIPATED:
        first_txt += ' (obligation added beforehand from the summary)'
    rows.append((name, m.get('property'), ', '.join(f.replace('omaha-client/src/', '') for f in files), need, m.get('confirmed'), first_txt, ', '.join(lines), m.get('caught_by') or []))
out = ['# Seeded changes', '',
       'Each directory holds one change to google/omaha-client written by an independent sub-agent that was given only the text of',
       'one property and a scratch worktree of /repo (nothing from /verif): `patch.diff` (the change; compiles, the 258 tests of',
       'the workspace pass with it), `demo.diff` (a test that fails with the change and passes without it) and `meta.json`',
       '(what it needs to manifest, what was run to confirm it, and the result of the checks on it, with the history of',
       'earlier runs). None of these changes is committed to /repo. To run a check against one:',
       '', '    git -C /repo apply /verif/seeded/<id>/patch.diff && ./check <Cnn>; git -C /repo checkout -- .', '',
       '(`tools/seed.py` does the confirmation and the runs; with `--in-worktree` it applies the change in the scratch worktree and',
       'points the checks at it through `VERIF_REPO`, so that several changes can be tested side by side.)', '',
       'Waves: -1/-2 first wave, -3/-4 second wave (agents told which ideas were taken), -5/-6 third and -7/-8 fourth wave (checks run',
       'on them before anything about them was looked at).', '',
       '| change | property | touches | confirmed | first run of the checks | now: obligation that fires |',
       '|---|---|---|---|---|---|']
for r in rows:
    out.append('| %s | %s | %s | %s | %s | %s |' % (r[0], r[1], r[2], 'yes' if r[4] else 'NO', r[5] or 'caught', r[6]))
out += ['', '## What each change needs in order to show', '']
for r in rows:
    out.append('* **%s** — %s' % (r[0], r[3]))
missed = [r[0] for r in rows if not r[7]]
out += ['', 'Not caught by any check at present: %s' % (', '.join(missed) if missed else 'none'), '']
open(os.path.join(V, 'seeded', 'README.md'), 'w').write('\n'.join(out))
print(len(rows), 'changes;', 'missed:', missed)
