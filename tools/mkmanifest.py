#!/usr/bin/env python3
"""Regenerates MANIFEST.json from the table below (single source of truth for claims)."""
import json, os, subprocess
V = os.path.dirname(os.path.dirname(os.path.abspath(__file__)))
props = [json.loads(l) for l in open(os.path.join(V, 'properties.jsonl'))]

NA = {
 'C13': 'behaviour is that of futures::channel::mpsc (lock-free queue + wakers); Kani exhausts 28 GB on one send/receive and has no concurrency model; a hand model would check the model, not the code (DESIGN.md section 7)',
 'C16': 'parser is serde_json + derived visitors; Kani rejects memchr inline asm and the deserializer is ~10k lines of dependency code; no bounded solver query over the real code is in reach (DESIGN.md section 7)',
 'C17': 'handle_omaha_request is hyper + serde_json + url + real P-256 signing end to end; none of it is encodable for CBMC/z3 within reach (DESIGN.md section 7)',
}

MIRSYM = 'bounded symbolic execution of the rustc MIR of the real functions (mirsym path mode), properties discharged by z3 (Int encoding, division lemma) and re-decided by cvc5 + z3 4.8 from SMT-LIB2; counterexamples replayed natively'

PATHS = 'bounded path exploration of the rustc MIR of the real async state-machine functions (mirsym: symbolic environment outcomes, diamond merging, callee contracts), trace monitors discharged by z3; arithmetic clauses re-decided by cvc5 + z3 4.8; counterexamples replayed on the real StateMachine with a scripted environment'
SM_NOTE = 'Trusted: model library for std/futures/http plumbing (listed in evidence.assumptions), logging off, environment futures ready when polled, rustc nightly MIR of the current tree, z3. Callee contracts used in one exploration are established by another exploration of the callee\'s own MIR (assume/guarantee). Outside: event delivery to the observer (C13), transport/URL algebra of http/hyper.'

CHECKS = {
 'C02': dict(
    text='All paths of the single exchange function (do_omaha_request_and_update_context) are enumerated with the handler, build result, HTTP result, status, headers and verification verdict symbolic: verification is unconditional and first, and a failed one returns CupValidation with no header read, context write, announcement or storage traffic. All paths of the attempt loop, of start_update_check, ping_omaha and the event-report function (exchange replaced by that contract) show no retry, failure count +1, untouched last-contact time, no app-set update, one lost-event metric. Every forgery position in every request kind is a path of these explorations, which no test enumerates.',
    note=SM_NOTE, design='4/C02', technique=PATHS),
 'C06': dict(
    text='The attempt loop of perform_update_check is unrolled past its bound with every per-attempt outcome symbolic (6 error classes, caller error or not, poll interval present or not, status, clock): at most 3 requests, retry iff transient and allowed, back-off window [2^(k-1)s-500ms, +500ms) for every random draw and two draws differ, metrics count exactly the attempts, session id constant and request id fresh, payload unchanged. Covers the whole outcome alphabet^3, not sampled sequences.',
    note=SM_NOTE, design='4/C06', technique=PATHS),
 'C07': dict(
    text='For all header byte strings up to the bound (12 quick / 24 thorough bytes, every byte value), every status and every old value: the interval after an authenticated exchange equals min(N,86400)s iff the header is a plain decimal u64, a change is announced, persisted and committed in that order before the exchange returns, no-response exchanges leave it unchanged; Context::persist / Context::load encode and decode it (and the other two keys) as specified for every context / every stored integer.',
    note=SM_NOTE + ' Header model: HeaderValue::to_str = visible ASCII; str::parse::<uN> = Rust FromStr grammar; duplicates in HeaderMap not modelled.', design='4/C07', technique=PATHS),
 'C08': dict(
    text='One check / one ping is executed from an arbitrary in-memory context (counter, times, interval symbolic at full width), which is the inductive step for histories of any length: counter and last-contact rules per error class, final announcements, persist+commit before return; the three context keys are written only by Context::persist from one context, and persist/load are inverse at microsecond precision for every context, so with the Storage contract (atomic commit) a crash at any instant leaves the last commit.',
    note=SM_NOTE + ' Storage implementations\' atomicity is assumed (trait contract).', design='4/C08', technique=PATHS),
 'C01': dict(
    text='parse_etag is executed on every byte string up to 8 (quick) / 12 (thorough) bytes and equals the stripping rule with no panic. All paths of verify_response and verify_response_with_signature / make_transaction_hash are enumerated with SHA-256, hex, DER and ECDSA as abstract primitives: the check decides which values flow into which primitive (ETag split at the first colon, whole-value comparison of the decoded hash with SHA-256(retained request body), signature from the left part, key looked up by the key id ARGUMENT, digest composed as H(H(req)||H(resp)||"<id>:<nonce>") in this order), that every outcome maps to accept / its error class, and that the accepted signature is returned unchanged. StandardCupv2Handler::new is executed for 0-2 historical keys: every configured key is registered under its own id and the latest id is the one used for decoration. The text form of the nonce is decided on the MIR of its Display (exactly hex::encode of the whole array). A deviation of the code from the recognised call structure counts as a violation only when the real verifier also mistreats one of 98 concrete exchanges produced by an independent signer (authentic ones in all ETag forms and key positions, and 22 single mutations each); otherwise it is inconclusive.',
    note='Trusted: sha2, hex, der, ecdsa/p256 primitives (abstract events; hash injectivity not assumed); HeaderValue::to_str model; rustc nightly MIR; z3. Outside: PEM (de)serialisation of PublicKeys, the real-SHA digest miter (Kani did not finish in the design probe).', design='4/C01', technique=PATHS + '; structural findings confirmed natively against an independently written CUP signer'),
 'C03': dict(
    text='All paths of StandardCupv2Handler::decorate_request (one fresh nonce, cup2key = format(latest key id, that nonce) appended to the parsed request URI and written back, metadata = body serialised from the same request + same id + same nonce, error mapping) and of RequestBuilder::build with and without a handler (the Intermediate decorated is the one converted into the HTTP request: decorated URI = request URI, body seen by the handler = body serialised for the wire, metadata returned = the handler\'s); Nonce::new: 32 distinct random draws; nonce Display = hex of the whole array; on every path of the exchange function the configured handler is still configured afterwards; fresh request id / constant session id per attempt from the attempt-loop exploration. build() is explored for every builder content (update check + ping, ping only, event only, empty): every kind of request is decorated. All paths of HttpUriExt::append_query_parameter with http::Uri operations as events: the URI is taken apart once, only its path-and-query is replaced by the parse of the correctly formatted text, scheme and authority are the original values; the real function is additionally run natively on 12 URL shapes (port, userinfo, IPv6 literal, query, relative).',
    note=SM_NOTE + ' Outside: the http crate\'s own URL parsing/printing (events; validated natively on concrete URL shapes only), RNG quality.', design='4/C03', technique=PATHS),
 'C09': dict(
    text='Cohort::update_from_omaha for all present/empty/absent combinations and all strings; AppSetExt::update_from_omaha routing by app id for app sets and response lists up to 2x2 (quick) / 3x3 (thorough) with symbolic ids (duplicates and unknown ids occur); App::load fills exactly the unset fields for every stored record outcome; App::persist writes (cohort, user counting) under the app id; wire mapping of cohort and ping dates; update only on successful check/ping and before the apps are written to storage (start_update_check / ping_omaha explorations).',
    note=SM_NOTE + ' Outside: JSON text of PersistedApp (serde_json calls are events).', design='4/C09', technique=PATHS),
 'C15': dict(
    text='The real RequestBuilder code is executed for every sequence of up to 3 (quick) / 4 (thorough) add_update_check / add_ping / add_event calls over 2 / 3 apps with symbolic (possibly equal) ids and arbitrary other app data, followed by the id setters in either order / alone / not at all, then build_intermediate: entries unique by id in first-insertion order keeping the first insertion\'s app data, headers (content type, updater, fg iff on-demand, first app id), request fields from config/params/ids, per-app wire mapping, builder unchanged; HTTP request assembly (POST, headers in order, body = serialisation of the body); serde renames/skip rules read from the source.',
    note=SM_NOTE + ' Outside: bytes rendered by serde_json / hyper; the serde-attributes obligation is a source-text check, not a solver query.', design='4/C15', technique=PATHS),
 'C20': dict(
    text='Ordering/equality = lexicographic on the numeric 4-tuple and From<[u32;1..4]> zero-fill for all u32^4 values by Kani/CBMC over the compiled crate; Version::from_str on every ASCII string up to 8 (quick) / 11 (thorough) bytes equals the grammar (1-4 dot-separated [+]digits parts <= u32::MAX, zero-filled) with no panic, by symbolic execution of its MIR over all lengths and separator positions, and on every dot-free ASCII string up to 21 bytes (the overflow boundary of every integer width up to u64); print/serde delegation checked on the MIR call structure and against the real code on concrete strings.',
    note='Trusted: Kani 0.68/CBMC 6.11 (unwind 18, unwinding assertions on); models of str::split / str::parse::<u32>; core::fmt, itertools and serde_json string layer are outside.', design='4/C20', technique='Kani/CBMC proof harnesses over the compiled crate (ordering, From) + bounded symbolic execution of the from_str MIR with z3; reference oracle validated against the real code'),
 'C04': dict(
    text='All paths of the tail of perform_update_check (after the attempt loop) are enumerated with the parse result, every response app\'s id/status/manifest, plan creation, the policy decision, each installer result, each report delivery and the reboot answer symbolic, for the stated app-set/response shapes (one installer result per offered app, plus a three-offer exploration for the per-app alignment): the announced states are exactly the ones the outcome calls for (iff table), the result lists the response apps in order with their own action; loop-error paths announce ErrorCheckingForUpdate once; run() announces Idle after each check with WaitingForReboot iff a reboot is pending. The iff direction and the per-app alignment hold on every path, which tests sample.',
    note=SM_NOTE, design='4/C04', technique=PATHS),
 'C05': dict(
    text='run() and wait_for_reboot() are executed with the real select!/Fuse/join code under all arm orders and pending/ready choices (bounded): a check starts only right after a positive update_check_allowed of the same iteration with exactly its parameters; invalid app sets end the machine at once; perform_reboot only with a pending reboot and a positive most recent answer (reboot wait explored two rounds deep); the installer only after update_can_start == Ok on the created plan; all builders of a check use the policy\'s parameters and the real RequestBuilder puts exactly the parameters it was given on the wire; App::valid decided for all ids/versions.',
    note=SM_NOTE, design='4/C05', technique=PATHS),
 'C10': dict(
    text='On every path of the tail of perform_update_check (same symbolic dimensions as C04) the sequence of report requests, the apps and events in each (type, result, error code, previous/next version), session id and fresh request id are exactly those the outcome calls for, lost-event metrics are counted exactly, reports are never retried, and delivery outcomes change neither states nor result (paths that differ only in delivery are compared).',
    note=SM_NOTE, design='4/C10', technique=PATHS),
 'C11': dict(
    text='Every path of run()/wait_for_reboot() with up to 1 (quick) / 2 (thorough) control requests arriving at any select point (outer wait, during the check, reboot wait), timers pending or firing in any order: each request taken is answered exactly once before the next suspension, with Started/Throttled per the policy decision (asked with the request\'s options) or AlreadyRunning, an on-demand request (during the check or the reboot wait) upgrades every later reboot question, and only such a request does; one arriving in the reboot wait is followed at once by the reboot question; and whenever the machine suspends while waiting or checking it has polled the control channel in that poll (so a request arriving then is seen).',
    note=SM_NOTE + ' Outside: the waker mechanics of the channel itself, dropped handles, StateMachineGone (channel internals).', design='4/C11', technique=PATHS),
 'C12': dict(
    text='Every path of run()/wait_for_reboot() with both timers of a wait pending/firing in all orders: the policy timing is asked, stored and announced before every wait, exactly the timers it calls for are armed with exactly its values (a minimum wait of any length gets its timer), a scheduled check (and a ping) begins only after all timers of that wait fired (the real future::join/Fuse code is executed), the reboot question is re-asked only after its 30-minute timer or an on-demand request.',
    note=SM_NOTE, design='4/C12', technique=PATHS),
 'C14': dict(
    text='Panic audit by exploration: every feasible path of the check, ping, report, exchange, persist/load and helper functions, and of run() with its start-up reads, is executed from arbitrary stored values, clock values, statuses and header bytes with overflow checks on; any reachable panic (overflow, unwrap, index, Vec::remove, time arithmetic) is a violation. Storage independence: with every storage write/commit allowed to fail, the set of observable (events, requests, installer calls) sequences equals the one with a working storage. Context::load total for all stored integers. parse_safe_json (the crate\'s code in front of serde_json) on every body up to 8 / 12 bytes: no panic, prefix stripped iff present. Every path of start_update_check, whatever the error class, ends with the three final announcements including the result.',
    note=SM_NOTE + ' Outside: totality of serde_json/http on arbitrary bytes, hangs; installer contract (one result per offered app).', design='4/C14', technique=PATHS),
 'C18': dict(
    text='report_waited_for_reboot_duration for all clock values (exact duration iff computable, else Err and no metric); record_update_first_seen_time and report_attempts_to_successful_install for all stored values and storage failures; finish time and system-app target version written and committed before reboot_needed on every install-ok path, nothing after a failure; run(): report iff finish time stored and target version == running version, with the duration measured to the first monotonic reading of this state machine whatever iteration the report succeeds in, keys removed+committed once after success; install attempts reported exactly for checks in which an app failed or was updated, as a success only if none failed.',
    note=SM_NOTE, design='4/C18', technique=PATHS),
 'C19': dict(
    text='Every path of the real MIR of both time conversions, the truncation helper, the StorageExt time wrappers and the two-clock algebra (destructure, complete_with, checked_to_*, From, Add/Sub, is_after_or_eq_any) is executed symbolically with full-width integers; each clause of the property is an unsat query over all i64 microsecond values / all (sec: i64, nsec < 1e9) times / all durations. Within the stated trusted base this covers every input, which no finite test list does.',
    note='Trusted: the std::time model (Timespec = (i64 sec, u32 nsec<1e9); duration_since/checked_add/checked_sub/Add/Sub/Duration::{from_*,as_*} per std docs), the MIR text emitted by rustc nightly for the current tree, z3/cvc5. Outside: platform SystemTime ranges other than i64 seconds; Display impls.',
    design='4/C19', technique=MIRSYM),
}

m = {
 'version': 1,
 'setup_cmd': './setup.sh',
 'hooks': {'guard': 'cargo feature verif-hooks (omaha_client)', 'enable': '--features verif-hooks (no hook is needed so far: the MIR engine reads private functions from the dump)',
           'baseline_off_cmd': 'cd /repo && cargo test --workspace --no-fail-fast --offline',
           'source_commits': [], 'add_only': True},
 'engines': [
   {'name': 'mirsym', 'path': 'mirsym/', 'serves_properties': sorted(CHECKS), 'kind_free_text': 'symbolic executor over `cargo +nightly rustc -- -Zunpretty=mir` of /repo (regenerated when the source hash changes), z3 python API + cvc5/z3 CLI cross-check'},
   {'name': 'kani', 'path': 'kani/', 'serves_properties': ['C20'], 'kind_free_text': 'Kani 0.68 proof harness crate with a path dependency on /repo/omaha-client (rebuilt from the current tree on every run)'},
   {'name': 'replay', 'path': 'replay/', 'serves_properties': sorted(CHECKS), 'kind_free_text': 'native harness (path dependency on /repo/omaha-client) that executes the real code on solver models'},
 ],
 'checks': [],
 'notes': 'fix: commits in /repo: 0646d69, dbaa4ee (C19), 306c1ee, 7785c1d (C14 counter overflows); see known_findings.txt',
 'not_applicable': [],
}
for p in props:
    pid = p['id']
    if pid in CHECKS:
        c = CHECKS[pid]
        m['checks'].append({
            'property_id': pid,
            'quick_cmd': './check %s --tier quick' % pid,
            'thorough_cmd': './check %s --tier thorough' % pid,
            'evidence_file': 'evidence/%s.json' % pid,
            'replay_cmd_template': './check %s --replay {path}' % pid,
            'engine': c.get('engine', 'mirsym'),
            'level_claimed': {'category': 'model_checking', 'text': c['text'], 'design_ref': c['design']},
            'level_note': c['note'],
            'technique': c['technique'],
        })
    else:
        m['not_applicable'].append({'property_id': pid, 'reason': NA.get(pid, 'check not built yet (work in progress; DESIGN.md section 4 has the plan)')})
json.dump(m, open(os.path.join(V, 'MANIFEST.json'), 'w'), indent=1)
print('checks:', [c['property_id'] for c in m['checks']])
