#!/usr/bin/env python3
"""Regenerates MANIFEST.json from the table below (single source of truth for claims)."""
import json, os, subprocess
V = os.path.dirname(os.path.dirname(os.path.abspath(__file__)))
props = [json.loads(l) for l in open(os.path.join(V, 'properties.jsonl'))]

NA = {
 'C13': 'behaviour is that of futures::channel::mpsc (lock-free queue + wakers); Kani exhausts 28 GB on one send/receive and has no concurrency model; a hand model would check the model, not the code (DESIGN.md section 7)',
 'C16': 'parser is serde_json + derived visitors; Kani rejects memchr inline asm and the deserializer is ~10k lines of dependency code; no bounded solver query over the real code is in reach (DESIGN.md section 7)',
 'C17': 'handle_omaha_request is hyper + serde_json + url + real P-256 signing end to end; none of it is encodable for CBMC/z3 within reach (DESIGN.md section 7)',
}

MIRSYM = 'bounded symbolic execution of the rustc MIR of the real functions (mirsym path mode), properties discharged by z3 (Int encoding, division lemma) and re-decided by cvc5 + z3 4.8 from SMT-LIB2; counterexamples replayed natively'

PATHS = 'bounded path exploration of the rustc MIR of the real async state-machine functions (mirsym: symbolic environment outcomes, diamond merging, callee contracts), trace monitors discharged by z3; arithmetic clauses re-decided by cvc5 + z3 4.8; counterexamples replayed on the real StateMachine with a scripted environment'
SM_NOTE = 'Trusted: model library for std/futures/http plumbing (listed in evidence.assumptions), logging off, environment futures ready when polled, rustc nightly MIR of the current tree, z3. Callee contracts used in one exploration are established by another exploration of the callee\'s own MIR (assume/guarantee). Outside: event delivery to the observer (C13), transport/URL algebra of http/hyper.'

CHECKS = {
 'C02': dict(
    text='All paths of the single exchange function (do_omaha_request_and_update_context) are enumerated with the handler, build result, HTTP result, status, headers and verification verdict symbolic: verification is unconditional and first, and a failed one returns CupValidation with no header read, context write, announcement or storage traffic. All paths of the attempt loop, of start_update_check, ping_omaha and the event-report function (exchange replaced by that contract) show no retry, failure count +1, untouched last-contact time, no app-set update, one lost-event metric. Every forgery position in every request kind is a path of these explorations, which no test enumerates.',
    note=SM_NOTE, design='4/C02', technique=PATHS),
 'C06': dict(
    text='The attempt loop of perform_update_check is unrolled past its bound with every per-attempt outcome symbolic (6 error classes, caller error or not, poll interval present or not, status, clock): at most 3 requests, retry iff transient and allowed, back-off window [2^(k-1)s-500ms, +500ms) for every random draw and two draws differ, metrics count exactly the attempts, session id constant and request id fresh, payload unchanged. Covers the whole outcome alphabet^3, not sampled sequences.',
    note=SM_NOTE, design='4/C06', technique=PATHS),
 'C07': dict(
    text='For all header byte strings up to the bound (12 quick / 24 thorough bytes, every byte value), every status and every old value: the interval after an authenticated exchange equals min(N,86400)s iff the header is a plain decimal u64, a change is announced, persisted and committed in that order before the exchange returns, no-response exchanges leave it unchanged; Context::persist / Context::load encode and decode it (and the other two keys) as specified for every context / every stored integer.',
    note=SM_NOTE + ' Header model: HeaderValue::to_str = visible ASCII; str::parse::<uN> = Rust FromStr grammar; duplicates in HeaderMap not modelled.', design='4/C07', technique=PATHS),
 'C08': dict(
    text='One check / one ping is executed from an arbitrary in-memory context (counter, times, interval symbolic at full width), which is the inductive step for histories of any length: counter and last-contact rules per error class, final announcements, persist+commit before return; the three context keys are written only by Context::persist from one context, and persist/load are inverse at microsecond precision for every context, so with the Storage contract (atomic commit) a crash at any instant leaves the last commit.',
    note=SM_NOTE + ' Storage implementations\' atomicity is assumed (trait contract).', design='4/C08', technique=PATHS),
 'C19': dict(
    text='Every path of the real MIR of both time conversions, the truncation helper, the StorageExt time wrappers and the two-clock algebra (destructure, complete_with, checked_to_*, From, Add/Sub, is_after_or_eq_any) is executed symbolically with full-width integers; each clause of the property is an unsat query over all i64 microsecond values / all (sec: i64, nsec < 1e9) times / all durations. Within the stated trusted base this covers every input, which no finite test list does.',
    note='Trusted: the std::time model (Timespec = (i64 sec, u32 nsec<1e9); duration_since/checked_add/checked_sub/Add/Sub/Duration::{from_*,as_*} per std docs), the MIR text emitted by rustc nightly for the current tree, z3/cvc5. Outside: platform SystemTime ranges other than i64 seconds; Display impls.',
    design='4/C19', technique=MIRSYM),
}

m = {
 'version': 1,
 'setup_cmd': './setup.sh',
 'hooks': {'guard': 'cargo feature verif-hooks (omaha_client)', 'enable': '--features verif-hooks (no hook is needed so far: the MIR engine reads private functions from the dump)',
           'baseline_off_cmd': 'cd /repo && cargo test --workspace --no-fail-fast --offline',
           'source_commits': [], 'add_only': True},
 'engines': [
   {'name': 'mirsym', 'path': 'mirsym/', 'serves_properties': sorted(CHECKS), 'kind_free_text': 'symbolic executor over `cargo +nightly rustc -- -Zunpretty=mir` of /repo (regenerated when the source hash changes), z3 python API + cvc5/z3 CLI cross-check'},
   {'name': 'replay', 'path': 'replay/', 'serves_properties': sorted(CHECKS), 'kind_free_text': 'native harness (path dependency on /repo/omaha-client) that executes the real code on solver models'},
 ],
 'checks': [],
 'notes': 'fix: commits in /repo: 0646d69, dbaa4ee (C19), 306c1ee, 7785c1d (C14 counter overflows); see known_findings.txt',
 'not_applicable': [],
}
for p in props:
    pid = p['id']
    if pid in CHECKS:
        c = CHECKS[pid]
        m['checks'].append({
            'property_id': pid,
            'quick_cmd': './check %s --tier quick' % pid,
            'thorough_cmd': './check %s --tier thorough' % pid,
            'evidence_file': 'evidence/%s.json' % pid,
            'replay_cmd_template': './check %s --replay {path}' % pid,
            'engine': c.get('engine', 'mirsym'),
            'level_claimed': {'category': 'model_checking', 'text': c['text'], 'design_ref': c['design']},
            'level_note': c['note'],
            'technique': c['technique'],
        })
    else:
        m['not_applicable'].append({'property_id': pid, 'reason': NA.get(pid, 'check not built yet (work in progress; DESIGN.md section 4 has the plan)')})
json.dump(m, open(os.path.join(V, 'MANIFEST.json'), 'w'), indent=1)
print('checks:', [c['property_id'] for c in m['checks']])
