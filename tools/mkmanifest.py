#!/usr/bin/env python3
"""Regenerates MANIFEST.json from the table below (single source of truth for claims)."""
import json, os, subprocess
V = os.path.dirname(os.path.dirname(os.path.abspath(__file__)))
props = [json.loads(l) for l in open(os.path.join(V, 'properties.jsonl'))]

NA = {
 'C13': 'behaviour is that of futures::channel::mpsc (lock-free queue + wakers); Kani exhausts 28 GB on one send/receive and has no concurrency model; a hand model would check the model, not the code (DESIGN.md section 7)',
 'C16': 'parser is serde_json + derived visitors; Kani rejects memchr inline asm and the deserializer is ~10k lines of dependency code; no bounded solver query over the real code is in reach (DESIGN.md section 7)',
 'C17': 'handle_omaha_request is hyper + serde_json + url + real P-256 signing end to end; none of it is encodable for CBMC/z3 within reach (DESIGN.md section 7)',
}

MIRSYM = 'bounded symbolic execution of the rustc MIR of the real functions (mirsym path mode), properties discharged by z3 (Int encoding, division lemma) and re-decided by cvc5 + z3 4.8 from SMT-LIB2; counterexamples replayed natively'

CHECKS = {
 'C19': dict(
    text='Every path of the real MIR of both time conversions, the truncation helper, the StorageExt time wrappers and the two-clock algebra (destructure, complete_with, checked_to_*, From, Add/Sub, is_after_or_eq_any) is executed symbolically with full-width integers; each clause of the property is an unsat query over all i64 microsecond values / all (sec: i64, nsec < 1e9) times / all durations. Within the stated trusted base this covers every input, which no finite test list does.',
    note='Trusted: the std::time model (Timespec = (i64 sec, u32 nsec<1e9); duration_since/checked_add/checked_sub/Add/Sub/Duration::{from_*,as_*} per std docs), the MIR text emitted by rustc nightly for the current tree, z3/cvc5. Outside: platform SystemTime ranges other than i64 seconds; Display impls.',
    design='4/C19', technique=MIRSYM),
}

m = {
 'version': 1,
 'setup_cmd': './setup.sh',
 'hooks': {'guard': 'cargo feature verif-hooks (omaha_client)', 'enable': '--features verif-hooks (no hook is needed so far: the MIR engine reads private functions from the dump)',
           'baseline_off_cmd': 'cd /repo && cargo test --workspace --no-fail-fast --offline',
           'source_commits': [], 'add_only': True},
 'engines': [
   {'name': 'mirsym', 'path': 'mirsym/', 'serves_properties': sorted(CHECKS), 'kind_free_text': 'symbolic executor over `cargo +nightly rustc -- -Zunpretty=mir` of /repo (regenerated when the source hash changes), z3 python API + cvc5/z3 CLI cross-check'},
   {'name': 'replay', 'path': 'replay/', 'serves_properties': sorted(CHECKS), 'kind_free_text': 'native harness (path dependency on /repo/omaha-client) that executes the real code on solver models'},
 ],
 'checks': [],
 'notes': 'fix: commits in /repo: 0646d69 (C19 i64::MIN micros), dbaa4ee (C19 truncate toward epoch); see known_findings.txt',
 'not_applicable': [],
}
for p in props:
    pid = p['id']
    if pid in CHECKS:
        c = CHECKS[pid]
        m['checks'].append({
            'property_id': pid,
            'quick_cmd': './check %s --tier quick' % pid,
            'thorough_cmd': './check %s --tier thorough' % pid,
            'evidence_file': 'evidence/%s.json' % pid,
            'replay_cmd_template': './check %s --replay {path}' % pid,
            'engine': c.get('engine', 'mirsym'),
            'level_claimed': {'category': 'model_checking', 'text': c['text'], 'design_ref': c['design']},
            'level_note': c['note'],
            'technique': c['technique'],
        })
    else:
        m['not_applicable'].append({'property_id': pid, 'reason': NA.get(pid, 'check not built yet (work in progress; DESIGN.md section 4 has the plan)')})
json.dump(m, open(os.path.join(V, 'MANIFEST.json'), 'w'), indent=1)
print('checks:', [c['property_id'] for c in m['checks']])
