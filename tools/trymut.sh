#!/bin/bash
# usage: trymut.sh <check id> <file relative to /repo> <sed expression>   -- applies, runs check, reverts
id="$1"; f="$2"; expr="$3"
cd /repo && sed -i "$expr" "$f" && git diff --stat | tail -1
cd /verif && ./check "$id" 2>&1 | grep -E "^VIOLATION|^INCONCLUSIVE|^VIOLATED|exit" | cut -c1-260
echo "exit=$?"
cd /repo && git checkout -- . 
