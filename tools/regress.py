#!/usr/bin/env python3
"""final regression: every seeded change must still be caught by (one of) the checks recorded for it.
Usage: regress.py <k> <n>   (worker k of n; run n of them side by side; logs in /tmp/regress_<k>.log)"""
import json, glob, os, subprocess, sys, time
k, n = int(sys.argv[1]), int(sys.argv[2])
wt = '/tmp/wt_r%d' % k
scr = '/tmp/scr_wt_r%d' % k
subprocess.run('git -C /repo worktree add --detach %s HEAD >/dev/null 2>&1' % wt, shell=True)
os.makedirs(scr, exist_ok=True)
for d in ('mir-target', 'replay-target', 'kani-target'):
    if not os.path.isdir(scr + '/' + d):
        subprocess.run('cp -r /verif/.scratch/%s %s/' % (d, scr), shell=True)
env = dict(os.environ, VERIF_REPO=wt, VERIF_SCRATCH=scr, VERIF_OUT=scr)
dirs = sorted(glob.glob('/verif/seeded/C*-*'))
order = {'C04': 9, 'C05': 8, 'C10': 7}
out = open('/tmp/regress_%d.log' % k, 'w')
for i, d in enumerate(dirs):
    if i % n != k:
        continue
    m = json.load(open(d + '/meta.json'))
    cb = m.get('caught_by') or []
    if not cb:
        out.write('%s NOCHECK\n' % os.path.basename(d)); out.flush(); continue
    c = sorted(cb, key=lambda x: order.get(x, 0))[0]
    subprocess.run('git checkout -- . && git apply %s/patch.diff' % d, shell=True, cwd=wt)
    t = time.time()
    r = subprocess.run(['./check', c], cwd='/verif', env=env, capture_output=True, text=True)
    out.write('%s %s exit=%d %ds\n' % (os.path.basename(d), c, r.returncode, time.time() - t)); out.flush()
    subprocess.run('git checkout -- .', shell=True, cwd=wt)
out.write('DONE\n')
# scratch is removed again (disk space; nothing a registered command needs lives under /tmp)
subprocess.run('git -C /repo worktree remove --force %s; rm -rf %s %s' % (wt, wt, scr), shell=True)
