#!/usr/bin/env python3
"""Self-made regressions (the M-numbers mentioned in properties.jsonl) applied one at a time to /repo,
with the checks expected to catch them.  Usage: mutants.py [name ...]   (always restores /repo)"""
import subprocess, sys, os, time
WT = os.environ.get('MUT_WT', '/repo')       # a scratch worktree of /repo at the same commit, or /repo itself
R = WT + '/omaha-client/src/'
ENVP = dict(os.environ)
if WT != '/repo':
    scr = '/tmp/scr_' + os.path.basename(WT)
    os.makedirs(scr, exist_ok=True)
    ENVP.update(VERIF_REPO=WT, VERIF_SCRATCH=scr, VERIF_OUT=scr)
M = [
 ('M05-verify-only-2xx', 'state_machine.rs', "        let signature: Option<DerSignature> = if let (Some(handler), Some(metadata)) =\n            (self.cup_handler.as_ref(), &request_metadata)\n        {",
  "        let signature: Option<DerSignature> = if let (Some(handler), Some(metadata), true) =\n            (self.cup_handler.as_ref(), &request_metadata, response.status().is_success())\n        {", ['C02']),
 ('M11-last-update-time-on-request-error', 'state_machine.rs', "                        | OmahaRequestError::CupValidation(_) => UpdateCheckFailureReason::Internal,",
  "                        | OmahaRequestError::CupValidation(_) => {\n                            self.context.schedule.last_update_time = Some(self.time_source.now().into());\n                            UpdateCheckFailureReason::Internal\n                        }", ['C08', 'C02']),
 ('M13-ping-success-not-persisted', 'state_machine.rs', "        self.app_set.lock().await.update_from_omaha(&app_responses);\n\n        self.persist_data().await;\n    }",
  "        self.app_set.lock().await.update_from_omaha(&app_responses);\n    }", ['C08', 'C09']),
 ('M15-upgrade-unconditional', 'state_machine.rs', "                        let _ = responder.send(StartUpdateCheckResponse::AlreadyRunning);\n                        if new_options.source == InstallSource::OnDemand {\n                            info!(\"Waiting for reboot",
  "                        let _ = responder.send(StartUpdateCheckResponse::AlreadyRunning);\n                        if new_options.source == InstallSource::OnDemand || true {\n                            info!(\"Waiting for reboot", ['C11', 'C05']),
 ('M16-race-instead-of-join', 'state_machine.rs', "            future::join(\n                self.timer.wait_for(minimum_wait),\n                self.timer.wait_until(check_timing.time),\n            )\n            .map(|_| ())",
  "            future::select(\n                self.timer.wait_for(minimum_wait),\n                self.timer.wait_until(check_timing.time),\n            )\n            .map(|_| ())", ['C12']),
 ('M19-app-id-header-last', 'request_builder.rs', "if let Some(main_app) = self.app_entries.first() {", "if let Some(main_app) = self.app_entries.last() {", ['C15']),
 ('M34-no-jitter', 'state_machine.rs', "    n - range / 2 + rand::random::<u64>() % range", "    n - range / 2 + range / 2 + 0 * (rand::random::<u64>() % range)", ['C06']),
 ('M40-denied-announces-deferred', 'state_machine.rs', "                    .await;\n\n                    return Self::make_not_updated_result(\n                        response,\n                        update_check::Action::DeniedByPolicy,",
  "                    .await;\n                    Self::yield_state(State::InstallationDeferredByPolicy, co).await;\n\n                    return Self::make_not_updated_result(\n                        response,\n                        update_check::Action::DeniedByPolicy,", ['C04']),
 ('M47-results-popped-from-end', 'state_machine.rs', "                        }) => match app_install_results.remove(0) {", "                        }) => match app_install_results.pop().unwrap() {", ['C04']),
 ('M48-no-break-in-routing', 'app_set.rs', "                    app.user_counting = app_response.user_counting.clone();\n                    break;", "                    app.user_counting = app_response.user_counting.clone();", ['C09']),
 ('M02-hash-order-swapped', 'cup_ecdsa.rs', "    hasher.update(request_hash);\n    hasher.update(response_hash);", "    hasher.update(response_hash);\n    hasher.update(request_hash);", ['C01']),
 ('M04-prefix-compare', 'cup_ecdsa.rs', "        if *request_body_hash != *actual_hash {", "        if !request_body_hash.starts_with(actual_hash) {", ['C01']),
 ('M42-session-per-attempt', 'state_machine.rs', "            request_builder = request_builder.request_id(GUID::new());\n            let result = self",
  "            request_builder = request_builder.request_id(GUID::new()).session_id(GUID::new());\n            let result = self", ['C06', 'C03']),
 ('M45-third-component-misplaced', 'version.rs', "            array[i] = v?;", "            array[if i == 2 { 3 } else { i }] = v?;", ['C20']),
 ('M25-target-version-of-first-offer', 'state_machine.rs', "                if let Some(next_version) = next_versions.get(system_app_id) {", "                if let Some(next_version) = next_versions.values().next() {", ['C18']),
 ('M10d-counter-not-reset-on-ping', 'state_machine.rs', "        self.context.state.consecutive_failed_update_checks = 0;\n\n        // Even though this is a ping", "        // Even though this is a ping", ['C08']),
 ('M32-report-with-default-params', 'state_machine.rs', "        let config = self.config.clone();\n        let mut request_builder = RequestBuilder::new(&config, request_params);\n        for app in apps {\n            // Skip apps with no update.",
  "        let config = self.config.clone();\n        let default_params = RequestParams::default();\n        let _ = request_params;\n        let mut request_builder = RequestBuilder::new(&config, &default_params);\n        for app in apps {\n            // Skip apps with no update.", ['C05', 'C10']),
 ('M41b-unwrap-on-storage-write', 'state_machine.rs', "                if let Err(e) = storage\n                    .set_time(UPDATE_FINISH_TIME, update_finish_time)\n                    .await\n                {\n                    error!(\"Unable to persist {}: {}\", UPDATE_FINISH_TIME, e);\n                }",
  "                storage\n                    .set_time(UPDATE_FINISH_TIME, update_finish_time)\n                    .await\n                    .unwrap();", ['C14']),
]
want = sys.argv[1:]
out = []
for name, f, old, new, checks in M:
    if want and not any(w in name for w in want):
        continue
    p = R + f
    s = open(p).read()
    if s.count(old) != 1:
        print('SKIP %s: pattern occurs %d times' % (name, s.count(old)))
        continue
    open(p, 'w').write(s.replace(old, new))
    try:
        b = subprocess.run('cd %s && cargo build --offline -q -p omaha_client 2>&1 | tail -3' % WT, shell=True, capture_output=True, text=True)
        if 'error' in b.stdout:
            print('SKIP %s: does not compile: %s' % (name, b.stdout[-300:]))
            continue
        for c in checks:
            t = time.time()
            r = subprocess.run(['./check', c], cwd='/verif', capture_output=True, text=True, env=ENVP)
            viol = [l for l in r.stdout.split('\n') if l.startswith(('VIOLATED', 'INCONCLUSIVE '))]
            print('%-36s %s exit=%d %4.0fs  %s' % (name, c, r.returncode, time.time() - t, ' | '.join(v[:110] for v in viol[:2])), flush=True)
            out.append((name, c, r.returncode))
    finally:
        subprocess.run('git -C %s checkout -- .' % WT, shell=True)
print('caught:', sorted(set(n for n, c, rc in out if rc == 1)))
print('missed:', sorted(set(n for n, c, rc in out) - set(n for n, c, rc in out if rc == 1)))
