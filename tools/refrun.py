#!/usr/bin/env python3
"""run the checks relevant to each behaviour-preserving refactoring; any exit != 0 is a false alarm / fragility"""
import subprocess, os, sys, json, time, re
WT=os.environ.get('REF_WT', '/tmp/wt_ref')       # scratch worktree of /repo; patches are read from seeded/refactorings
HOME=os.environ.get('VERIF_HOME','/verif')
scr='/tmp/scr_' + os.path.basename(WT)
os.makedirs(scr, exist_ok=True)
for d in ('mir-target','replay-target','kani-target'):
    if not os.path.isdir(scr+'/'+d) and os.path.isdir('/verif/.scratch/'+d):
        subprocess.run('cp -r /verif/.scratch/%s %s/' % (d, scr), shell=True)
env=dict(os.environ, VERIF_REPO=WT, VERIF_SCRATCH=scr, VERIF_OUT=scr)
PLAN={15:['C08','C02','C09','C07'],16:['C06','C03'],17:['C04','C10'],18:['C18','C14'],19:['C05','C11','C12'],20:['C08','C02','C14'],21:['C08'],22:['C14','C04'],23:['C02','C07','C03','C06'],24:['C10','C04'],25:['C08','C07'],26:['C03','C15','C02'],27:['C01'],28:['C03'],29:['C14'],30:['C09'],
      1:['C18','C14'],2:['C12','C11','C05'],3:['C12'],4:['C18','C08'],5:['C06','C03','C02'],6:['C04','C10','C18'],7:['C02','C07','C04'],8:['C18'],9:['C08','C07','C14'],10:['C15','C03','C02'],11:['C01'],12:['C20'],13:['C19'],14:['C09']}
want=[int(x) for x in sys.argv[1:]] or sorted(PLAN)
out={}
for k in want:
    subprocess.run('git checkout -- .', shell=True, cwd=WT)
    r=subprocess.run('git apply /verif/seeded/refactorings/REF%d/patch.diff' % k, shell=True, cwd=WT, capture_output=True, text=True)
    if r.returncode: print('REF%d does not apply' % k, r.stderr[-200:]); continue
    for c in PLAN[k]:
        t=time.time()
        r=subprocess.run(['./check', c], cwd=HOME, env=env, capture_output=True, text=True)
        bad=[l for l in r.stdout.split('\n') if l.startswith(('VIOLATED','INCONCLUSIVE '))]
        print('REF%-2d %s exit=%d %4.0fs %s' % (k, c, r.returncode, time.time()-t, ' | '.join(b[:200] for b in bad[:2])), flush=True)
        out['REF%d/%s' % (k,c)]={'exit': r.returncode, 'lines': [b[:300] for b in bad[:3]]}
    subprocess.run('git checkout -- .', shell=True, cwd=WT)
json.dump(out, open('/tmp/refrun_%s.json' % '_'.join(map(str,want)), 'w'), indent=1)
