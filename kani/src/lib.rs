//! Kani proof harnesses over the compiled omaha_client crate (engine K of DESIGN.md).
#![allow(unused)]
#[cfg(kani)]
mod proofs {
    use omaha_client::protocol::Cohort;
    use omaha_client::version::Version;

    fn any_arr() -> [u32; 4] {
        [kani::any(), kani::any(), kani::any(), kani::any()]
    }

    /// ordering and equality are numeric, component-wise, left to right (all u32^4 x u32^4)
    #[kani::proof]
    #[kani::unwind(18)]
    fn version_order_is_lexicographic() {
        let a = any_arr();
        let b = any_arr();
        let va = Version::from(a);
        let vb = Version::from(b);
        let spec = (a[0], a[1], a[2], a[3]).cmp(&(b[0], b[1], b[2], b[3]));
        assert!(va.cmp(&vb) == spec);
        assert!(va.partial_cmp(&vb) == Some(spec));
        assert!((va == vb) == (spec == core::cmp::Ordering::Equal));
        assert!((va < vb) == (spec == core::cmp::Ordering::Less));
        kani::cover!(spec == core::cmp::Ordering::Less && a[0] == b[0] && a[1] == b[1] && a[2] == b[2]);
        kani::cover!(spec == core::cmp::Ordering::Greater && a[0] > b[0] && a[3] < b[3]);
    }

    /// conversion from 1..4 element arrays zero-fills
    #[kani::proof]
    #[kani::unwind(18)]
    fn version_from_arrays_zero_fills() {
        let a = any_arr();
        assert!(Version::from([a[0]]) == Version::from([a[0], 0, 0, 0]));
        assert!(Version::from([a[0], a[1]]) == Version::from([a[0], a[1], 0, 0]));
        assert!(Version::from([a[0], a[1], a[2]]) == Version::from([a[0], a[1], a[2], 0]));
        // distinct components give distinct versions
        let b = any_arr();
        assert!((Version::from(a) == Version::from(b)) == (a == b));
        kani::cover!(a[3] != 0);
    }
}
