#!/bin/bash
# one-time (per fresh restore) offline build of everything the checks need; checks rebuild incrementally
cd "$(dirname "$0")"
export CARGO_NET_OFFLINE=true
mkdir -p .scratch evidence replays
python3-vt - <<'PY'
import sys
sys.path.insert(0, 'lib')
import common
p, h, s = common.get_mir()
print('MIR dump', p, 'hash', h[:12], '%.0fs' % s)
print('replay dev', common.build_replay('dev'))
print('replay release', common.build_replay('release'))
PY
