//! Native replay harness: executes the *real* omaha_client code on concrete inputs produced by the
//! solver (or by the model-validation sampler) and prints what it observed as one JSON line.
//! It contains no oracle: the python side decides.
use serde_json::{json, Value};
use std::io::{BufRead, Read};

mod time_k;
mod sm;
mod version_k;
mod uri_k;
mod cup_k;

fn dispatch(req: &Value) -> Value {
    let kernel = req["kernel"].as_str().unwrap_or("");
    let r = std::panic::catch_unwind(|| match kernel {
        k if k.starts_with("time.") => time_k::run(k, req),
        k if k.starts_with("sm.") => sm::run(k, req),
        k if k.starts_with("version.") => version_k::run(k, req),
        "nonce.display" => uri_k::nonce(req),
        "cup.verify" => cup_k::run(req),
        k if k.starts_with("uri.") => uri_k::run(k, req),
        _ => json!({"error": format!("unknown kernel {}", kernel)}),
    });
    match r {
        Ok(v) => v,
        Err(e) => {
            let msg = if let Some(s) = e.downcast_ref::<&str>() {
                s.to_string()
            } else if let Some(s) = e.downcast_ref::<String>() {
                s.clone()
            } else {
                "panic".to_string()
            };
            json!({"panic": msg})
        }
    }
}

fn main() {
    std::panic::set_hook(Box::new(|_| {}));
    let batch = std::env::args().any(|a| a == "--batch");
    if batch {
        let stdin = std::io::stdin();
        for line in stdin.lock().lines() {
            let line = line.unwrap();
            if line.trim().is_empty() {
                continue;
            }
            let req: Value = serde_json::from_str(&line).unwrap_or(json!({}));
            println!("{}", dispatch(&req));
        }
    } else {
        let mut s = String::new();
        std::io::stdin().read_to_string(&mut s).unwrap();
        let req: Value = serde_json::from_str(&s).unwrap_or(json!({}));
        println!("{}", dispatch(&req));
    }
}
