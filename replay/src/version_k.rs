use omaha_client::version::Version;
use serde_json::{json, Value};
use std::str::FromStr;

fn arr(v: &Value) -> [u32; 4] {
    let a = v.as_array().unwrap();
    [a[0].as_u64().unwrap() as u32, a[1].as_u64().unwrap() as u32, a[2].as_u64().unwrap() as u32, a[3].as_u64().unwrap() as u32]
}

pub fn run(kernel: &str, req: &Value) -> Value {
    match kernel {
        "version.parse" => {
            let bytes: Vec<u8> = req["bytes"].as_array().unwrap().iter().map(|b| b.as_u64().unwrap() as u8).collect();
            match std::str::from_utf8(&bytes) {
                Err(_) => json!({"utf8": false}),
                Ok(s) => match Version::from_str(s) {
                    Ok(v) => {
                        let printed = v.to_string();
                        let back = Version::from_str(&printed).ok().map(|w| w == v);
                        json!({"utf8": true, "ok": true, "printed": printed, "reparse_equal": back,
                               "json": serde_json_string(&v)})
                    }
                    Err(_) => json!({"utf8": true, "ok": false}),
                },
            }
        }
        "version.cmp" => {
            let a = Version::from(arr(&req["a"]));
            let b = Version::from(arr(&req["b"]));
            json!({"cmp": format!("{:?}", a.cmp(&b)), "eq": a == b, "printed": a.to_string()})
        }
        _ => json!({"error": "unknown version kernel"}),
    }
}

fn serde_json_string(v: &Version) -> String {
    serde_json::to_string(v).unwrap_or_default()
}
