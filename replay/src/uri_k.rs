use http::Uri;
use omaha_client::http_uri_ext::HttpUriExt;
use serde_json::{json, Value};

fn parts(u: &Uri) -> Value {
    json!({"text": u.to_string(), "scheme": u.scheme_str(), "authority": u.authority().map(|a| a.as_str().to_string()),
           "path": u.path(), "query": u.query()})
}

pub fn run(kernel: &str, req: &Value) -> Value {
    match kernel {
        "uri.append" => {
            let url = req["url"].as_str().unwrap_or("");
            let key = req["key"].as_str().unwrap_or("");
            let value = req["value"].as_str().unwrap_or("");
            match url.parse::<Uri>() {
                Err(_) => json!({"parsed": false}),
                Ok(u) => {
                    let before = parts(&u);
                    match u.append_query_parameter(key, value) {
                        Ok(n) => json!({"parsed": true, "ok": true, "before": before, "after": parts(&n)}),
                        Err(e) => json!({"parsed": true, "ok": false, "before": before, "error": e.to_string()}),
                    }
                }
            }
        }
        _ => json!({"error": "unknown uri kernel"}),
    }
}
