use http::Uri;
use omaha_client::http_uri_ext::HttpUriExt;
use serde_json::{json, Value};

fn parts(u: &Uri) -> Value {
    json!({"text": u.to_string(), "scheme": u.scheme_str(), "authority": u.authority().map(|a| a.as_str().to_string()),
           "path": u.path(), "query": u.query()})
}

pub fn run(kernel: &str, req: &Value) -> Value {
    match kernel {
        "uri.append" => {
            let url = req["url"].as_str().unwrap_or("");
            let key = req["key"].as_str().unwrap_or("");
            let value = req["value"].as_str().unwrap_or("");
            match url.parse::<Uri>() {
                Err(_) => json!({"parsed": false}),
                Ok(u) => {
                    let before = parts(&u);
                    match u.append_query_parameter(key, value) {
                        Ok(n) => json!({"parsed": true, "ok": true, "before": before, "after": parts(&n)}),
                        Err(e) => json!({"parsed": true, "ok": false, "before": before, "error": e.to_string()}),
                    }
                }
            }
        }
        _ => json!({"error": "unknown uri kernel"}),
    }
}

pub fn nonce(req: &Value) -> Value {
    use omaha_client::cup_ecdsa::Nonce;
    let bytes: Vec<u8> = req["bytes"].as_array().map(|a| a.iter().map(|b| b.as_u64().unwrap_or(0) as u8).collect()).unwrap_or_default();
    let mut arr = [0u8; 32];
    for (i, b) in bytes.iter().take(32).enumerate() {
        arr[i] = *b;
    }
    let n = Nonce::from(arr);
    json!({"display": n.to_string()})
}
