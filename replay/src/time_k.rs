use omaha_client::time::system_time_conversion::{
    checked_system_time_to_micros_from_epoch, micros_from_epoch_to_system_time,
};
use omaha_client::time::{ComplexTime, PartialComplexTime};
use serde_json::{json, Value};
use std::time::{Duration, Instant, SystemTime};

/// (sec, nsec) with 0 <= nsec < 1e9, the representation std uses on unix
pub fn st_from(sec: i64, nsec: u32) -> SystemTime {
    let base = if sec >= 0 {
        SystemTime::UNIX_EPOCH + Duration::new(sec as u64, 0)
    } else {
        SystemTime::UNIX_EPOCH - Duration::new(sec.unsigned_abs(), 0)
    };
    base + Duration::new(0, nsec)
}

pub fn st_parts(t: SystemTime) -> (i64, u32) {
    match t.duration_since(SystemTime::UNIX_EPOCH) {
        Ok(d) => (d.as_secs() as i64, d.subsec_nanos()),
        Err(e) => {
            let d = e.duration();
            if d.subsec_nanos() == 0 {
                ((d.as_secs() as i64).wrapping_neg(), 0)
            } else {
                ((d.as_secs() as i64).wrapping_neg() - 1, 1_000_000_000 - d.subsec_nanos())
            }
        }
    }
}

fn i64_of(v: &Value) -> i64 {
    if let Some(i) = v.as_i64() {
        i
    } else {
        v.as_str().unwrap().parse::<i64>().unwrap()
    }
}

/// Instants cannot be constructed from numbers; anchor at a process-wide base and offset.
pub fn instant_from(base: Instant, off_ns: i64) -> Instant {
    if off_ns >= 0 {
        base + Duration::from_nanos(off_ns as u64)
    } else {
        base - Duration::from_nanos(off_ns.unsigned_abs())
    }
}

fn pct(req: &Value, base: Instant) -> PartialComplexTime {
    let k = req["kind"].as_str().unwrap();
    let w = st_from(i64_of(&req["wsec"]), req["wnsec"].as_u64().unwrap_or(0) as u32);
    let m = instant_from(base, i64_of(&req["mono_off"]));
    match k {
        "wall" => PartialComplexTime::Wall(w),
        "mono" => PartialComplexTime::Monotonic(m),
        _ => PartialComplexTime::Complex(ComplexTime { wall: w, mono: m }),
    }
}

pub fn run(kernel: &str, req: &Value) -> Value {
    match kernel {
        "time.micros_roundtrip" => {
            let m = i64_of(&req["m"]);
            let t = micros_from_epoch_to_system_time(m);
            let (s, n) = st_parts(t);
            let back = checked_system_time_to_micros_from_epoch(t);
            json!({"sec": s, "nsec": n, "back": back})
        }
        "time.to_micros" => {
            let t = st_from(i64_of(&req["sec"]), req["nsec"].as_u64().unwrap() as u32);
            json!({"micros": checked_system_time_to_micros_from_epoch(t)})
        }
        "time.truncate" => {
            let t = st_from(i64_of(&req["sec"]), req["nsec"].as_u64().unwrap() as u32);
            let mono = Instant::now();
            let c = ComplexTime { wall: t, mono };
            let t1 = c.truncate_submicrosecond_walltime();
            let t2 = t1.truncate_submicrosecond_walltime();
            let (s1, n1) = st_parts(t1.wall);
            let (s2, n2) = st_parts(t2.wall);
            let stored = checked_system_time_to_micros_from_epoch(t).map(micros_from_epoch_to_system_time).map(st_parts);
            json!({"once": [s1, n1], "twice": [s2, n2], "mono_same": t1.mono == mono && t2.mono == mono,
                   "stored": stored.map(|p| vec![p.0, p.1 as i64])})
        }
        "time.after_any" => {
            let base = Instant::now() + Duration::from_secs(1 << 40);
            let a = ComplexTime {
                wall: st_from(i64_of(&req["a"]["wsec"]), req["a"]["wnsec"].as_u64().unwrap_or(0) as u32),
                mono: instant_from(base, i64_of(&req["a"]["mono_off"])),
            };
            let b = pct(&req["b"], base);
            json!({"result": a.is_after_or_eq_any(b)})
        }
        _ => json!({"error": "unknown time kernel"}),
    }
}
