//! CUPv2 verification on concrete exchanges. The signer here is written from the protocol description
//! (digest = SHA-256(SHA-256(request) || SHA-256(response) || "<key id>:<nonce hex>"), ECDSA P-256 over
//! that digest, ETag = hex(DER signature) ":" hex(SHA-256(request))) and does not use the library's helper,
//! so that a change of the library's composition shows as a rejected authentic exchange.
use omaha_client::cup_ecdsa::{Cupv2RequestHandler, Nonce, PublicKeyAndId, PublicKeys, RequestMetadata, StandardCupv2Handler};
use p256::ecdsa::{signature::Signer, Signature, SigningKey};
use serde_json::{json, Value};
use sha2::{Digest, Sha256};

fn bytes(v: &Value) -> Vec<u8> {
    v.as_array().map(|a| a.iter().map(|b| b.as_u64().unwrap_or(0) as u8).collect()).unwrap_or_default()
}

fn key(seed: u64) -> SigningKey {
    let mut b = [0u8; 32];
    b[24..].copy_from_slice(&seed.to_be_bytes());
    b[0] = 1;
    SigningKey::from_bytes(&b).unwrap()
}

fn nonce32(v: &Value) -> [u8; 32] {
    let b = bytes(v);
    let mut a = [0u8; 32];
    for (i, x) in b.iter().take(32).enumerate() {
        a[i] = *x;
    }
    a
}

pub fn run(req: &Value) -> Value {
    // configured keys: [[id, seed], ...], first = latest
    let keys: Vec<(u64, u64)> = req["keys"].as_array().unwrap().iter().map(|k| (k[0].as_u64().unwrap(), k[1].as_u64().unwrap())).collect();
    let mk = |(id, seed): (u64, u64)| PublicKeyAndId { id, key: key(seed).verifying_key() };
    let pks = PublicKeys { latest: mk(keys[0]), historical: keys[1..].iter().map(|k| mk(*k)).collect() };
    let handler = StandardCupv2Handler::new(&pks);
    // the exchange as the client saw it
    let request_body = bytes(&req["request_body"]);
    let response_body = bytes(&req["response_body"]);
    let nonce = nonce32(&req["nonce"]);
    let key_id = req["key_id"].as_u64().unwrap();
    // what the (possibly dishonest) signer signed
    let s = &req["signed"];
    let s_req = if s["request_body"].is_null() { request_body.clone() } else { bytes(&s["request_body"]) };
    let s_resp = if s["response_body"].is_null() { response_body.clone() } else { bytes(&s["response_body"]) };
    let s_nonce = if s["nonce"].is_null() { nonce } else { nonce32(&s["nonce"]) };
    let s_id = s["key_id"].as_u64().unwrap_or(key_id);
    let s_seed = s["seed"].as_u64().unwrap();
    let order: Vec<String> = s["order"].as_array().map(|a| a.iter().map(|x| x.as_str().unwrap().to_string()).collect())
        .unwrap_or_else(|| vec!["req".into(), "resp".into(), "param".into()]);
    let mut h = Sha256::new();
    for part in &order {
        match part.as_str() {
            "req" => h.update(Sha256::digest(&s_req)),
            "resp" => h.update(Sha256::digest(&s_resp)),
            "param" => h.update(format!("{}:{}", s_id, hex::encode(s_nonce)).as_bytes()),
            _ => {}
        }
    }
    let digest = h.finalize();
    let sig: Signature = key(s_seed).sign(&digest);
    let mut der = sig.to_der().as_bytes().to_vec();
    if let Some(i) = req["flip_sig_bit"].as_u64() {
        let i = i as usize % (der.len() * 8);
        der[i / 8] ^= 1 << (i % 8);
    }
    let mut hash = Sha256::digest(&s_req).to_vec();
    if let Some(i) = req["flip_hash_bit"].as_u64() {
        let i = i as usize % (hash.len() * 8);
        hash[i / 8] ^= 1 << (i % 8);
    }
    if let Some(n) = req["truncate_hash"].as_u64() {
        hash.truncate(n as usize);
    }
    let core = format!("{}:{}{}", hex::encode(&der), hex::encode(&hash), req["suffix"].as_str().unwrap_or(""));
    let etag = match req["form"].as_str().unwrap_or("plain") {
        "quoted" => format!("\"{}\"", core),
        "weak" => format!("W/\"{}\"", core),
        "raw" => req["raw_etag"].as_str().unwrap_or("").to_string(),
        _ => core,
    };
    let mut builder = http::Response::builder();
    if req["no_etag"].as_bool() != Some(true) {
        builder = builder.header("ETag", http::HeaderValue::from_bytes(etag.as_bytes()).unwrap_or(http::HeaderValue::from_static("")));
    }
    let resp = builder.body(response_body.clone()).unwrap();
    let md = RequestMetadata { request_body: request_body.clone(), public_key_id: key_id, nonce: Nonce::from(nonce) };
    match handler.verify_response(&md, &resp, key_id) {
        Ok(sig_back) => json!({"accepted": true, "returned_signature_is_the_one_sent": sig_back.as_bytes() == &der[..], "etag": etag}),
        Err(e) => json!({"accepted": false, "error": format!("{:?}", e).split('(').next().unwrap_or("").to_string(), "etag": etag}),
    }
}
