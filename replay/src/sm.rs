//! Scripted environment for the real StateMachine: every environment trait is implemented by an object
//! that follows a JSON script and records what the state machine did with it.
use futures::future::{BoxFuture, LocalBoxFuture};
use futures::prelude::*;
use omaha_client::app_set::VecAppSet;
use omaha_client::common::{App, CheckOptions, CheckTiming, ProtocolState, UpdateCheckSchedule};
use omaha_client::configuration::{Config, Updater};
use omaha_client::protocol::request::OS;
use omaha_client::cup_ecdsa::{
    CupDecorationError, CupRequest, CupVerificationError, Cupv2RequestHandler, Cupv2Verifier, Nonce,
    PublicKeyId, RequestMetadata,
};
use omaha_client::http_request::{self, HttpRequest};
use omaha_client::installer::{AppInstallResult, Installer, Plan, ProgressObserver};
use omaha_client::metrics::{Metrics, MetricsReporter};
use omaha_client::policy::{CheckDecision, PolicyEngine, UpdateDecision};
use omaha_client::protocol::request::InstallSource;
use omaha_client::protocol::Cohort;
use omaha_client::request_builder::RequestParams;
use omaha_client::state_machine::StateMachineBuilder;
use omaha_client::storage::Storage;
use omaha_client::time::{ComplexTime, MockTimeSource, PartialComplexTime, TimeSource, Timer};
use omaha_client::version::Version;
use serde_json::{json, Value};
use std::collections::BTreeMap;
use std::rc::Rc;
use std::str::FromStr;
use std::sync::{Arc, Mutex};
use std::time::{Duration, SystemTime};

type Log = Arc<Mutex<Vec<Value>>>;

fn log(l: &Log, v: Value) {
    l.lock().unwrap().push(v);
}

#[derive(Clone)]
struct Script(Arc<Value>);

impl Script {
    fn get(&self, k: &str) -> &Value {
        &self.0[k]
    }
}

// ------------------------------------------------------------------ storage

#[derive(Debug, thiserror::Error)]
#[error("scripted storage failure")]
pub struct StErr;

struct ScriptedStorage {
    log: Log,
    pending: BTreeMap<String, Value>,
    committed: Arc<Mutex<BTreeMap<String, Value>>>,
    fail: Vec<u64>,
    nops: u64,
}

impl ScriptedStorage {
    fn op(&mut self, what: &str, key: &str, val: Value) -> Result<(), StErr> {
        let n = self.nops;
        self.nops += 1;
        let fail = self.fail.contains(&n);
        log(&self.log, json!({"ev": "storage", "op": what, "key": key, "value": val, "n": n, "fail": fail}));
        if fail {
            Err(StErr)
        } else {
            Ok(())
        }
    }
}

impl Storage for ScriptedStorage {
    type Error = StErr;
    fn get_string<'a>(&'a self, key: &'a str) -> BoxFuture<'a, Option<String>> {
        let v = self.pending.get(key).and_then(|v| v.as_str().map(|s| s.to_string()));
        log(&self.log, json!({"ev": "storage", "op": "get_string", "key": key}));
        future::ready(v).boxed()
    }
    fn get_int<'a>(&'a self, key: &'a str) -> BoxFuture<'a, Option<i64>> {
        let v = self.pending.get(key).and_then(|v| v.as_i64());
        log(&self.log, json!({"ev": "storage", "op": "get_int", "key": key}));
        future::ready(v).boxed()
    }
    fn get_bool<'a>(&'a self, key: &'a str) -> BoxFuture<'a, Option<bool>> {
        let v = self.pending.get(key).and_then(|v| v.as_bool());
        future::ready(v).boxed()
    }
    fn set_string<'a>(&'a mut self, key: &'a str, value: &'a str) -> BoxFuture<'a, Result<(), StErr>> {
        let r = self.op("set_string", key, json!(value));
        if r.is_ok() {
            self.pending.insert(key.to_string(), json!(value));
        }
        future::ready(r).boxed()
    }
    fn set_int<'a>(&'a mut self, key: &'a str, value: i64) -> BoxFuture<'a, Result<(), StErr>> {
        let r = self.op("set_int", key, json!(value));
        if r.is_ok() {
            self.pending.insert(key.to_string(), json!(value));
        }
        future::ready(r).boxed()
    }
    fn set_bool<'a>(&'a mut self, key: &'a str, value: bool) -> BoxFuture<'a, Result<(), StErr>> {
        let r = self.op("set_bool", key, json!(value));
        if r.is_ok() {
            self.pending.insert(key.to_string(), json!(value));
        }
        future::ready(r).boxed()
    }
    fn remove<'a>(&'a mut self, key: &'a str) -> BoxFuture<'a, Result<(), StErr>> {
        let r = self.op("remove", key, Value::Null);
        if r.is_ok() {
            self.pending.remove(key);
        }
        future::ready(r).boxed()
    }
    fn commit(&mut self) -> BoxFuture<'_, Result<(), StErr>> {
        let r = self.op("commit", "", Value::Null);
        if r.is_ok() {
            *self.committed.lock().unwrap() = self.pending.clone();
        }
        future::ready(r).boxed()
    }
}

// ------------------------------------------------------------------ http

struct ScriptedHttp {
    log: Log,
    script: Vec<Value>,
    n: usize,
}

impl HttpRequest for ScriptedHttp {
    fn request(
        &mut self,
        req: http::Request<hyper::Body>,
    ) -> BoxFuture<'_, Result<http::Response<Vec<u8>>, http_request::Error>> {
        let (parts, body) = req.into_parts();
        let step = self.script.get(self.n).cloned().unwrap_or(json!({"err": "transport"}));
        self.n += 1;
        let l = self.log.clone();
        async move {
            let body = hyper::body::to_bytes(body).await.unwrap_or_default();
            let hdrs: BTreeMap<String, String> = parts
                .headers
                .iter()
                .map(|(k, v)| (k.to_string(), String::from_utf8_lossy(v.as_bytes()).to_string()))
                .collect();
            log(&l, json!({"ev": "http", "method": parts.method.to_string(), "uri": parts.uri.to_string(),
                           "headers": hdrs, "body": String::from_utf8_lossy(&body)}));
            if let Some(e) = step["err"].as_str() {
                return Err(match e {
                    "user" => http_request::mock_errors::make_user_error(),
                    "timeout" => http_request::Error::new_timeout(),
                    _ => http_request::mock_errors::make_transport_error(),
                });
            }
            let mut b = http::Response::builder().status(step["status"].as_u64().unwrap_or(200) as u16);
            if let Some(h) = step["headers"].as_object() {
                for (k, v) in h {
                    // header values are given either as a string or as an array of bytes
                    let bytes: Vec<u8> = if let Some(a) = v.as_array() {
                        a.iter().map(|x| x.as_u64().unwrap_or(0) as u8).collect()
                    } else {
                        v.as_str().unwrap_or("").as_bytes().to_vec()
                    };
                    if let Ok(hv) = http::HeaderValue::from_bytes(&bytes) {
                        b = b.header(k.as_str(), hv);
                    } else {
                        log(&l, json!({"ev": "note", "what": "header value not constructible", "name": k}));
                    }
                }
            }
            Ok(b.body(step["body"].as_str().unwrap_or("").as_bytes().to_vec()).unwrap())
        }
        .boxed()
    }
}

// ------------------------------------------------------------------ CUP

struct ScriptedCup {
    log: Log,
    verdicts: Mutex<Vec<bool>>,
    nverify: Mutex<usize>,
    decorate_fail: bool,
}

fn some_signature() -> ecdsa::der::Signature<p256::NistP256> {
    use signature::Signer;
    let key = omaha_client::cup_ecdsa::test_support::make_default_private_key_for_test();
    let sig: p256::ecdsa::Signature = key.sign(b"replay");
    sig.to_der()
}

impl Cupv2RequestHandler for ScriptedCup {
    fn decorate_request(&self, request: &mut impl CupRequest) -> Result<RequestMetadata, CupDecorationError> {
        log(&self.log, json!({"ev": "cup", "op": "decorate", "uri": request.get_uri()}));
        if self.decorate_fail {
            return Err(CupDecorationError::ParseError("http://[".parse::<http::Uri>().unwrap_err()));
        }
        let body = request.get_serialized_body()?;
        Ok(RequestMetadata { request_body: body, public_key_id: 7u64 as PublicKeyId, nonce: Nonce::from([9u8; 32]) })
    }
    fn verify_response(
        &self,
        request_metadata: &RequestMetadata,
        resp: &http::Response<Vec<u8>>,
        public_key_id: PublicKeyId,
    ) -> Result<ecdsa::der::Signature<p256::NistP256>, CupVerificationError> {
        let mut n = self.nverify.lock().unwrap();
        let ok = self.verdicts.lock().unwrap().get(*n).cloned().unwrap_or(true);
        *n += 1;
        log(&self.log, json!({"ev": "cup", "op": "verify", "status": resp.status().as_u16(), "key_id": public_key_id,
                              "meta_key_id": request_metadata.public_key_id, "verdict": ok,
                              "meta_body": String::from_utf8_lossy(&request_metadata.request_body)}));
        if ok {
            Ok(some_signature())
        } else {
            Err(CupVerificationError::EtagHeaderMissing)
        }
    }
}

impl Cupv2Verifier for ScriptedCup {
    fn verify_response_with_signature(
        &self,
        _s: &ecdsa::der::Signature<p256::NistP256>,
        _rq: &[u8],
        _rs: &[u8],
        _id: PublicKeyId,
        _n: &Nonce,
    ) -> Result<(), CupVerificationError> {
        Ok(())
    }
}

// ------------------------------------------------------------------ installer / plan

pub struct SPlan(String);
impl Plan for SPlan {
    fn id(&self) -> String {
        self.0.clone()
    }
}

#[derive(Debug, thiserror::Error)]
#[error("scripted installer failure")]
pub struct InErr;

struct ScriptedInstaller {
    log: Log,
    script: Script,
}

impl Installer for ScriptedInstaller {
    type InstallPlan = SPlan;
    type InstallResult = u32;
    type Error = InErr;
    fn perform_install<'a>(
        &'a mut self,
        plan: &'a SPlan,
        _observer: Option<&'a dyn ProgressObserver>,
    ) -> LocalBoxFuture<'a, (u32, Vec<AppInstallResult<InErr>>)> {
        log(&self.log, json!({"ev": "installer", "op": "perform_install", "plan": plan.0}));
        let rs: Vec<AppInstallResult<InErr>> = self.script.get("install").as_array().cloned().unwrap_or_default().iter().map(|v| {
            match v.as_str().unwrap_or("Installed") {
                "Deferred" => AppInstallResult::Deferred,
                "Failed" => AppInstallResult::Failed(InErr),
                _ => AppInstallResult::Installed,
            }
        }).collect();
        future::ready((77u32, rs)).boxed_local()
    }
    fn perform_reboot(&mut self) -> LocalBoxFuture<'_, Result<(), anyhow::Error>> {
        log(&self.log, json!({"ev": "installer", "op": "perform_reboot"}));
        future::ready(Ok(())).boxed_local()
    }
    fn try_create_install_plan<'a>(
        &'a self,
        request_params: &'a RequestParams,
        request_metadata: Option<&'a RequestMetadata>,
        _response: &'a omaha_client::protocol::response::Response,
        response_bytes: Vec<u8>,
        ecdsa_signature: Option<Vec<u8>>,
    ) -> LocalBoxFuture<'a, Result<SPlan, InErr>> {
        log(&self.log, json!({"ev": "installer", "op": "try_create_install_plan", "params": format!("{:?}", request_params),
                              "has_metadata": request_metadata.is_some(), "has_signature": ecdsa_signature.is_some(),
                              "response_len": response_bytes.len()}));
        let r = if self.script.get("plan").as_str() == Some("err") {
            Err(InErr)
        } else {
            Ok(SPlan(self.script.get("plan_id").as_str().unwrap_or("plan-1").to_string()))
        };
        future::ready(r).boxed_local()
    }
}

// ------------------------------------------------------------------ policy

struct ScriptedPolicy {
    log: Log,
    script: Script,
    time: MockTimeSource,
    ncheck: usize,
    nreboot: usize,
}

fn params_from(v: &Value) -> RequestParams {
    RequestParams {
        source: if v["source"].as_str() == Some("OnDemand") { InstallSource::OnDemand } else { InstallSource::ScheduledTask },
        use_configured_proxies: v["use_configured_proxies"].as_bool().unwrap_or(true),
        disable_updates: v["disable_updates"].as_bool().unwrap_or(false),
        offer_update_if_same_version: v["offer_update_if_same_version"].as_bool().unwrap_or(false),
    }
}

impl PolicyEngine for ScriptedPolicy {
    type TimeSource = MockTimeSource;
    type InstallResult = u32;
    type InstallPlan = SPlan;
    fn time_source(&self) -> &MockTimeSource {
        &self.time
    }
    fn compute_next_update_time<'a>(
        &'a mut self,
        apps: &'a [App],
        scheduling: &'a UpdateCheckSchedule,
        protocol_state: &'a ProtocolState,
    ) -> BoxFuture<'a, CheckTiming> {
        log(&self.log, json!({"ev": "policy", "op": "compute_next_update_time", "apps": format!("{:?}", apps),
                              "schedule": format!("{:?}", scheduling), "state": format!("{:?}", protocol_state),
                              "poll_interval_us": protocol_state.server_dictated_poll_interval.map(|d| d.as_micros() as u64),
                              "failed_checks": protocol_state.consecutive_failed_update_checks}));
        let t = self.time.now() + Duration::from_secs(3600);
        let mw = self.script.get("minimum_wait_ms").as_u64();
        let timing = match mw {
            Some(ms) => CheckTiming::builder().time(t).minimum_wait(Duration::from_millis(ms)).build(),
            None => CheckTiming::builder().time(t).build(),
        };
        future::ready(timing).boxed()
    }
    fn update_check_allowed<'a>(
        &'a mut self,
        _apps: &'a [App],
        _scheduling: &'a UpdateCheckSchedule,
        protocol_state: &'a ProtocolState,
        check_options: &'a CheckOptions,
    ) -> BoxFuture<'a, CheckDecision> {
        let step = self.script.get("check_allowed").get(self.ncheck).cloned().unwrap_or(json!({"decision": "Ok"}));
        self.ncheck += 1;
        log(&self.log, json!({"ev": "policy", "op": "update_check_allowed", "options": format!("{:?}", check_options),
                              "failed_checks": protocol_state.consecutive_failed_update_checks, "answer": step}));
        let d = match step["decision"].as_str().unwrap_or("Ok") {
            "OkUpdateDeferred" => CheckDecision::OkUpdateDeferred(params_from(&step)),
            "TooSoon" => CheckDecision::TooSoon,
            "ThrottledByPolicy" => CheckDecision::ThrottledByPolicy,
            "DeniedByPolicy" => CheckDecision::DeniedByPolicy,
            _ => CheckDecision::Ok(params_from(&step)),
        };
        future::ready(d).boxed()
    }
    fn update_can_start<'a>(&'a mut self, plan: &'a SPlan) -> BoxFuture<'a, UpdateDecision> {
        let a = self.script.get("can_start").as_str().unwrap_or("Ok").to_string();
        log(&self.log, json!({"ev": "policy", "op": "update_can_start", "plan": plan.0, "answer": a}));
        let d = match a.as_str() {
            "DeferredByPolicy" => UpdateDecision::DeferredByPolicy,
            "DeniedByPolicy" => UpdateDecision::DeniedByPolicy,
            _ => UpdateDecision::Ok,
        };
        future::ready(d).boxed()
    }
    fn reboot_allowed<'a>(&'a mut self, check_options: &'a CheckOptions, install_result: &'a u32) -> BoxFuture<'a, bool> {
        let a = self.script.get("reboot_allowed").get(self.nreboot).and_then(|v| v.as_bool()).unwrap_or(true);
        self.nreboot += 1;
        log(&self.log, json!({"ev": "policy", "op": "reboot_allowed", "options": format!("{:?}", check_options),
                              "install_result": install_result, "answer": a}));
        future::ready(a).boxed()
    }
    fn reboot_needed<'a>(&'a mut self, plan: &'a SPlan) -> BoxFuture<'a, bool> {
        let a = self.script.get("reboot_needed").as_bool().unwrap_or(false);
        log(&self.log, json!({"ev": "policy", "op": "reboot_needed", "plan": plan.0, "answer": a}));
        future::ready(a).boxed()
    }
}

// ------------------------------------------------------------------ timer / metrics

struct ScriptedTimer {
    log: Log,
}

impl Timer for ScriptedTimer {
    fn wait_until(&mut self, time: impl Into<PartialComplexTime>) -> BoxFuture<'static, ()> {
        log(&self.log, json!({"ev": "timer", "op": "wait_until", "time": format!("{:?}", time.into())}));
        future::ready(()).boxed()
    }
    fn wait_for(&mut self, duration: Duration) -> BoxFuture<'static, ()> {
        log(&self.log, json!({"ev": "timer", "op": "wait_for", "ms": duration.as_millis() as u64, "ns": duration.as_nanos() as u64}));
        future::ready(()).boxed()
    }
}

struct ScriptedMetrics {
    log: Log,
}

impl MetricsReporter for ScriptedMetrics {
    fn report_metrics(&mut self, metrics: Metrics) -> Result<(), anyhow::Error> {
        log(&self.log, json!({"ev": "metric", "what": format!("{:?}", metrics)}));
        Ok(())
    }
}

// ------------------------------------------------------------------ driver

fn config() -> Config {
    Config {
        updater: Updater { name: "updater".to_string(), version: Version::from([1, 2, 3, 4]) },
        os: OS { platform: "platform".to_string(), version: "0.1.2.3".to_string(), service_pack: "sp".to_string(), arch: "arch".to_string() },
        service_url: "http://example.com/update".to_string(),
        omaha_public_keys: None,
    }
}

pub fn run(kernel: &str, req: &Value) -> Value {
    match kernel {
        "sm.oneshot" => oneshot(req),
        _ => json!({"error": "unknown sm kernel"}),
    }
}

fn oneshot(req: &Value) -> Value {
    let script = Script(Arc::new(req["script"].clone()));
    let l: Log = Arc::new(Mutex::new(vec![]));
    let committed = Arc::new(Mutex::new(BTreeMap::new()));
    let mut initial = BTreeMap::new();
    if let Some(o) = script.get("storage").as_object() {
        for (k, v) in o {
            initial.insert(k.clone(), v.clone());
        }
    }
    *committed.lock().unwrap() = initial.clone();
    let storage = ScriptedStorage {
        log: l.clone(),
        pending: initial,
        committed: committed.clone(),
        fail: script.get("storage_fail").as_array().cloned().unwrap_or_default().iter().filter_map(|v| v.as_u64()).collect(),
        nops: 0,
    };
    let apps: Vec<App> = script.get("apps").as_array().cloned().unwrap_or_else(|| vec![json!({"id": "app-1", "version": "1.2.3.4"})]).iter().map(|a| {
        App::builder()
            .id(a["id"].as_str().unwrap_or("app-1").to_string())
            .version(Version::from_str(a["version"].as_str().unwrap_or("1.2.3.4")).unwrap_or_else(|_| Version::from([1])))
            .cohort(Cohort::new(a["cohort"].as_str().unwrap_or("stable")))
            .build()
    }).collect();
    let time = MockTimeSource::new(ComplexTime { wall: SystemTime::UNIX_EPOCH + Duration::from_secs(1_700_000_000), mono: std::time::Instant::now() });
    let http = ScriptedHttp { log: l.clone(), script: script.get("http").as_array().cloned().unwrap_or_default(), n: 0 };
    let cup = if script.get("cup").as_bool().unwrap_or(false) {
        Some(ScriptedCup {
            log: l.clone(),
            verdicts: Mutex::new(script.get("verify").as_array().cloned().unwrap_or_default().iter().map(|v| v.as_bool().unwrap_or(true)).collect()),
            nverify: Mutex::new(0),
            decorate_fail: script.get("decorate_fail").as_bool().unwrap_or(false),
        })
    } else {
        None
    };
    let builder = StateMachineBuilder::new(
        ScriptedPolicy { log: l.clone(), script: script.clone(), time, ncheck: 0, nreboot: 0 },
        http,
        ScriptedInstaller { log: l.clone(), script: script.clone() },
        ScriptedTimer { log: l.clone() },
        ScriptedMetrics { log: l.clone() },
        Rc::new(futures::lock::Mutex::new(storage)),
        config(),
        Rc::new(futures::lock::Mutex::new(VecAppSet::new(apps))),
        cup,
    );
    let l2 = l.clone();
    let res = std::panic::catch_unwind(std::panic::AssertUnwindSafe(|| {
        futures::executor::block_on(async move {
            let stream = builder.oneshot_check().await;
            futures::pin_mut!(stream);
            while let Some(ev) = stream.next().await {
                log(&l2, json!({"ev": "yield", "what": format!("{:?}", ev)}));
            }
        })
    }));
    let panicked = match res {
        Ok(()) => Value::Null,
        Err(e) => json!(e.downcast_ref::<String>().cloned().or_else(|| e.downcast_ref::<&str>().map(|s| s.to_string())).unwrap_or_else(|| "panic".to_string())),
    };
    let trace = l.lock().unwrap().clone();
    let comm: BTreeMap<String, Value> = committed.lock().unwrap().clone();
    json!({"trace": trace, "committed": comm, "panic": panicked})
}
