#!/usr/bin/env python3
"""C06 — Retries are bounded, only for transient failures, and backed off."""
import sys, os
sys.path.insert(0, os.path.dirname(os.path.abspath(__file__)))
from smbase import *
import callers


def run(chk):
    Ds = callers.monitor_attempt_loop(chk, chk.tier)
    # the no-retry-after-forgery obligation belongs to C02; it is evaluated there as well
    chk.obligations = [o for o in chk.obligations if o.name not in ('no-retry-after-forgery',)]
    randomize(chk)
    # the guarantee side of the exchange contract the loop exploration relies on: which outcomes are errors
    # (Ok iff 2xx, else Err(HttpStatus)) and when a poll interval comes into force
    import domaha
    E = domaha.explore(chk, 4)
    o1 = chk.ob('exchange-outcome-classes', 'the exchange function returns Ok exactly for 2xx statuses of an authenticated response and Err(HttpStatus) for every other status, and the poll interval it leaves is min(N,86400) s iff the header is a plain decimal u64 (header bound 4 bytes here; C07 decides it for 12 / 24)')
    o2 = chk.ob('exchange-announce-order', '(see C07)')
    o3 = chk.ob('exchange-no-response', '(see C07)')
    D1, D2, D3 = Decide(chk, E.ex, o1, cross=False), Decide(chk, E.ex, o2, cross=False), Decide(chk, E.ex, o3, cross=False)
    domaha.monitor_c07(E, D1, D2, D3)
    f1 = D1.done()
    D2.done()
    D3.done()
    if f1 and f1[0] == 'violated':
        o1.key = o1.name
    chk.obligations = [o for o in chk.obligations if o.name not in ('exchange-announce-order', 'exchange-no-response')]
    chk.absorb(E.ex)
    chk.bounds.update({'attempt_loop_unrolling': 5, 'apps': 1, 'per-attempt outcomes': 'Ok | 6 error classes x (caller error?, poll interval present?)'})
    chk.assumptions += [
        'the exchange function is replaced by its contract (event + Result + poll interval changed only when a response arrived), established by C02/C07 on its own MIR',
        'the response body is assumed unparseable after the loop (the tail of the check is C04/C10 territory); metrics and storage calls succeed; logging off',
        'event reports and pings contain no loop: checked on their MIR by C10/C08 (one exchange each)',
    ]


def randomize(chk):
    ex = make_executor(chk)
    o = chk.ob('randomize-arithmetic', 'randomize(n, range) returns n - range/2 + (r mod range) without overflow for the values the loop uses (n in {1000,2000,4000}, range 1000), for every r')
    D = Decide(chk, ex, o)
    fn = find_fn(ex, 'randomize')
    for n in (1000, 2000, 4000):
        st0 = State()
        res = ex.run_fn(fn, [Sc(z3.IntVal(n), 'u64'), Sc(z3.IntVal(1000), 'u64')], st0)
        D.no_bad_status(res)
        for st in res:
            if st.status == 'done':
                rnd = [e for e in st.trace if e.name == 'rand::random']
                if len(rnd) != 1:
                    D.failed = D.failed or ('violated', 'randomize does not draw exactly one random number', None, st)
                    continue
                r = z3.Int(rnd[0].out)
                D.require(st, st.result.t == n - 500 + r % 1000, 'randomize(%d,1000) == %d + r %% 1000' % (n, n - 500))
    D.done()
    chk.absorb(ex)


if __name__ == '__main__':
    chk = Check('C06')
    try:
        run(chk)
    except Exception as e:          # nothing the engine cannot digest may look like a verdict: exit 2
        import traceback
        o = chk.ob('engine', 'executor could not interpret the code')
        o.status = 'inconclusive'
        o.detail = ('%s: %s' % (type(e).__name__, e)) if not isinstance(e, Inconclusive) else str(e)
        if not isinstance(e, Inconclusive):
            o.detail += ' | ' + ' <- '.join(l.strip() for l in traceback.format_exc().strip().split('\n')[-7:-1:2])
    sys.exit(chk.finish())
