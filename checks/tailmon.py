"""Monitors on the paths of perform_update_check after the attempt loop ('tail' mode): C04 (announced
states and result), C10 (event reports), C05 (install / reboot gating, request parameters)."""
from smbase import *
from callers import (dval, variant_name, decode_yield, decode_metric, story, omaha_events, omaha_outcome,
                     builder_ops, op_named, ERRS, explore_puc)
from smodels import vec_items, vec_len, as_str
from models import deref_all
import smodels

ACTIONS = ['NoUpdate', 'DeferredByPolicy', 'DeniedByPolicy', 'InstallPlanExecutionError', 'Updated']


class Facts:
    pass


def fidx(ex, ty, name):
    i = ex.src.field_index(ty, name)
    if i is None:
        raise Inconclusive('field %s of %s not found in the source' % (name, ty))
    return i


def decode_path(ex, st, napps):
    """facts decided by this path (None when the path leaves something undecided that a monitor needs)"""
    F = Facts()
    F.st = st
    F.story = story(ex, st)
    tr = st.trace
    F.yields = [decode_yield(ex, st, e) for e in tr if e.kind == 'yield']
    F.ynames = [(y[0] + ('(%s)' % y[1] if y[1] else '')) for y in F.yields]
    om = omaha_events(st)
    F.check_req = om[0][1] if om else None
    F.reports = [e for _, e in om[1:]]
    F.report_idx = [i for i, _ in om[1:]]
    F.apps = [Tree({}, 'app%d' % i, 'common::App') for i in range(napps)]
    F.app_ids = [as_str(ex, st, ex.child(st, a, fidx(ex, 'common::App', 'id'), 'String')) for a in F.apps]
    pe = [e for e in tr if e.kind == 'env' and e.name == 'parse_json_response']
    F.parsed = None
    F.resp_apps = []
    if pe:
        res = Tree({}, pe[0].out, None)
        d = dval(ex, st, ex.discr_of(st, res).t)
        F.parsed = (d == 0) if d is not None else None
        if d == 0:
            R = 'protocol::response::Response'
            A = 'protocol::response::App'
            resp = payload(ex, st, res, 0, 0, R)
            F.resp = resp
            appsv = ex.child(st, resp, fidx(ex, R, 'apps'), 'std::vec::Vec<protocol::response::App>')
            F.daystart = ex.child(st, resp, fidx(ex, R, 'daystart'), None)
            n = vec_len(ex, st, appsv)
            for j in range(n):
                ra = ex.child(st, appsv, j, A)
                I_ = Facts()
                I_.v = ra
                I_.id = as_str(ex, st, ex.child(st, ra, fidx(ex, A, 'id'), 'String'))
                uc = ex.child(st, ra, fidx(ex, A, 'update_check'), 'std::option::Option<protocol::response::UpdateCheck>')
                ucd = dval(ex, st, ex.discr_of(st, uc).t)
                I_.has_update = None
                I_.version = None
                I_.has_uc = ucd
                I_.status_term = None
                if ucd == 0:
                    I_.has_update = False
                elif ucd == 1:
                    ucv = payload(ex, st, uc, 1, 0, 'protocol::response::UpdateCheck')
                    sdt = ex.discr_of(st, ex.child(st, ucv, fidx(ex, 'protocol::response::UpdateCheck', 'status'), 'protocol::response::OmahaStatus')).t
                    hu = dval(ex, st, sdt == 0)
                    I_.status_term = sdt
                    I_.has_update = bool(hu) if hu is not None else None
                    man = ex.child(st, ucv, fidx(ex, 'protocol::response::UpdateCheck', 'manifest'), 'std::option::Option<protocol::response::Manifest>')
                    I_.manifest = man
                I_.cohort = ex.child(st, ra, fidx(ex, A, 'cohort'), 'protocol::Cohort')
                F.resp_apps.append(I_)
    F.update_apps = [a for a in F.resp_apps if a.has_update]
    F.undecided = any(a.has_update is None for a in F.resp_apps) or F.parsed is None
    pl = [e for e in tr if e.kind == 'env' and e.name.endswith('::try_create_install_plan')]
    F.plan_ev = pl[0] if pl else None
    F.plan_ok = None
    if pl:
        d = dval(ex, st, ex.discr_of(st, Tree({}, pl[0].out + '!out', None)).t)
        F.plan_ok = (d == 0) if d is not None else None
    dc = [e for e in tr if e.kind == 'env' and e.name.endswith('::update_can_start')]
    F.decision_ev = dc[0] if dc else None
    F.decision = None
    if dc:
        d = dval(ex, st, ex.discr_of(st, Tree({}, dc[0].out + '!out', 'UpdateDecision')).t)
        F.decision = variant_name(ex, 'UpdateDecision', d)
    ins = [e for e in tr if e.kind == 'env' and e.name.endswith('::perform_install')]
    F.install_ev = ins[0] if ins else None
    F.results = None
    if ins:
        out = Tree({}, ins[0].out + '!out', None)
        rv = ex.child(st, out, 1, 'std::vec::Vec<installer::AppInstallResult<E>>')
        n = vec_len(ex, st, rv)
        F.results = []
        for k in range(n):
            d = dval(ex, st, ex.discr_of(st, ex.child(st, rv, k, 'installer::AppInstallResult<E>')).t)
            F.results.append(variant_name(ex, 'AppInstallResult', d))
        F.install_out = out
    rb = [e for e in tr if e.kind == 'env' and e.name.endswith('::reboot_needed')]
    F.reboot_ev = rb[0] if rb else None
    F.reboot_needed = None
    if rb:
        F.reboot_needed = dval(ex, st, Tree({}, rb[0].out + '!out', None) and z3.Bool(rb[0].out + '!out'))
    F.lost = [e for e in tr if e.kind == 'env' and e.name.endswith('report_metrics') and decode_metric(ex, st, e)[0] == 'OmahaEventLost']
    return F


def known_index(ex, st, F, rid):
    """index of the first app in the app set whose id equals the response app id rid on this path
    (None = unknown app; 'undecided' if the path leaves it open)"""
    for i, aid in enumerate(F.app_ids):
        eq = dval(ex, st, aid.t == rid.t)
        if eq is None:
            return 'undecided'
        if eq == 1:
            return i
    return None


def event_facts(ex, st, ev):
    E = 'protocol::request::Event'
    out = {}
    out['type'] = variant_name(ex, 'EventType', dval(ex, st, ex.discr_of(st, ex.child(st, ev, fidx(ex, E, 'event_type'), 'EventType')).t))
    out['result'] = variant_name(ex, 'EventResult', dval(ex, st, ex.discr_of(st, ex.child(st, ev, fidx(ex, E, 'event_result'), 'EventResult')).t))
    ec = ex.child(st, ev, fidx(ex, E, 'errorcode'), 'std::option::Option<EventErrorCode>')
    ecd = dval(ex, st, ex.discr_of(st, ec).t)
    out['errorcode'] = None
    if ecd == 1:
        out['errorcode'] = variant_name(ex, 'EventErrorCode', dval(ex, st, ex.discr_of(st, payload(ex, st, ec, 1, 0, 'EventErrorCode')).t))
    elif ecd is None:
        out['errorcode'] = 'undecided'
    out['prev'] = ex.child(st, ev, fidx(ex, E, 'previous_version'), 'std::option::Option<String>')
    out['next'] = ex.child(st, ev, fidx(ex, E, 'next_version'), 'std::option::Option<String>')
    return out


def expect_event(kind):
    return {
        'parse': ('UpdateComplete', 'Error', 'ParseResponse'),
        'plan': ('UpdateComplete', 'Error', 'ConstructInstallPlan'),
        'deferred': ('UpdateComplete', 'UpdateDeferred', None),
        'denied': ('UpdateComplete', 'Error', 'DeniedByPolicy'),
        'started': ('UpdateDownloadStarted', 'Success', None),
        'Installed': ('UpdateDownloadFinished', 'Success', None),
        'Deferred': ('UpdateComplete', 'UpdateDeferred', None),
        'Failed': ('UpdateComplete', 'Error', 'Installation'),
        'complete': ('UpdateComplete', 'Success', None),
    }[kind]


def monitor_tail(chk, shapes):
    obs = {}
    for name, desc in (
        ('announced-states', 'CheckingForUpdates first; ErrorCheckingForUpdate iff no usable response; OmahaServerResponse iff parsed; NoUpdateAvailable iff parsed and nothing offered; InstallationDeferredByPolicy iff policy deferred; InstallingUpdate iff plan failed or install approved; InstallationError iff plan failed or some app failed, after one InstallerError per failed app'),
        ('check-result', 'Err(ResponseParser) iff unparseable, Err(InstallPlan) iff plan creation failed, else Ok listing the response apps in order with their own ids and cohorts and the action each received (k-th offered app <-> k-th installer result); reboot pending iff installed without failure and the policy says a reboot is needed'),
        ('reports-exact', 'the sequence of event reports is exactly the one the outcome calls for: parse error -> one report for all apps; plan error / deferred / denied -> one report for exactly the known offered apps; install -> download-started, per-app results in response order, then update-complete for exactly the installed apps; each event carries the app version as previous and the manifest version as next version; same session id, fresh request id, the policy\'s request parameters'),
        ('lost-events', 'an undeliverable report is counted (once for a single-event report, once per event for the per-app report), never retried, and changes neither the announced states nor the result'),
        ('install-gated', 'the installer is invoked only after update_can_start answered Ok for the plan that try_create_install_plan returned; reboot_needed is asked only after an install with no failed app and for that plan; a deferral or denial leads to no install'),
        ('check-body-frame', 'perform_update_check itself never touches the failure counter or the last-contact time (they are assigned once, by its caller, after the outcome is known): whatever is persisted in the middle of a check - a changed poll interval is - carries the bookkeeping of the last completed check, never a mixture'),
    ):
        obs[name] = chk.ob(name, desc)
    Ds = {}
    ex = None
    stats = dict(paths=0, skipped_contract=0, undecided=0)
    conf_bad = []
    samples = []
    coverage = set()
    for (napps, nresp, nres) in shapes:
        ex, res = explore_puc(chk, 'tail', napps, nresp, nres)
        for name, o in obs.items():
            if name not in Ds:
                Ds[name] = Decide(chk, ex, o, cross=False)
            else:
                Ds[name].ex = ex
        groups = {}
        for st in res:
            if st.status == 'panic':
                # an installer that returns fewer/more results than offered apps breaks its contract
                try:
                    Fp = decode_path(ex, st, napps)
                except Inconclusive:
                    Fp = None
                if Fp is not None and Fp.results is not None and len(Fp.results) != len(Fp.update_apps):
                    stats['skipped_contract'] += 1
                    continue
            if st.status != 'done':
                # charged to every obligation decided on this exploration: a check that keeps only some of them
                # (C10: reports-exact, lost-events) must not lose an aborted or panicking path
                for nm_ in Ds:
                    Ds[nm_].no_bad_status([st])
                continue
            stats['paths'] += 1
            F = decode_path(ex, st, napps)
            if F.undecided:
                stats['undecided'] += 1
                Ds['announced-states'].failed = Ds['announced-states'].failed or ('inconclusive', 'path leaves response shape undecided', None, st)
                continue
            if F.results is not None and len(F.results) != len(F.update_apps):
                stats['skipped_contract'] += 1      # installer broke its contract (one result per offered app)
                continue
            if len(samples) < 8 and len(F.story) > 14:
                samples.append(F.story)
            check_states(ex, st, F, Ds['announced-states'], coverage)
            check_result(ex, st, F, Ds['check-result'])
            check_reports(ex, st, F, Ds['reports-exact'], Ds['lost-events'])
            check_gating(ex, st, F, Ds['install-gated'])
            import sutmon
            c0_, l0_ = sutmon.ctx_terms(ex, State())
            c1_, l1_ = sutmon.ctx_terms(ex, st)
            Ds['check-body-frame'].require(st, z3.And(c1_.t == c0_.t, sutmon.opt_pct_eq(ex, st, l1_, l0_)),
                                           'failure counter and last-contact time untouched by the body of the check')
            key = path_key(ex, st, F)
            obs_out = (tuple(F.ynames), result_shape(ex, st))
            groups.setdefault(key, set()).add(obs_out)
        import conform
        okc, badc = conform.validate_sample(chk, ex, res, napps, k=12, label='tail %s' % ((napps, nresp, nres),))
        if badc:
            conf_bad.append(badc[0]['detail'])
        for name in Ds:
            Ds[name]._napps = getattr(Ds[name], '_napps', None) or (napps if Ds[name].failed else None)
        for key, outs in groups.items():
            if len(outs) > 1:
                Ds['lost-events'].failed = Ds['lost-events'].failed or ('violated', 'same decisions, different announced states/result depending on report delivery: %s' % (list(outs)[:2],), None, None)
        chk.absorb(ex)
    chk.samples.append({'tail_paths': samples})
    chk.extra.setdefault('tail_explorations', []).append(dict(stats, shapes=[list(s) for s in shapes], outcome_classes_seen=sorted(coverage)))
    need = {'parse-error', 'no-update', 'plan-error', 'deferred', 'denied', 'install-ok', 'install-failed'}
    if not need <= coverage:
        Ds['announced-states'].failed = Ds['announced-states'].failed or ('inconclusive', 'vacuous: outcome classes not all reached: %s' % sorted(need - coverage), None, None)
    import conform
    for name, d in Ds.items():
        f = d.done()
        if f and f[0] == 'violated':
            d.ob.key = name
            st = f[3]
            d.ob.cex = {'path': story(d.ex, st) if st is not None else None}
            if st is not None:
                napps_ = len([c for c in st.cells if False]) or getattr(d, '_napps', None) or 1
                # the app set size of the failing exploration = number of appN origins among the builder args
                conform.confirm(chk, d, d.ex, napps_)
    if conf_bad and not any(d.failed for d in Ds.values()):
        d0 = Ds['announced-states']
        d0.ob.status = 'inconclusive'
        d0.ob.detail = 'engine/real-code disagreement on a replayed path: %s' % conf_bad[0]
    return Ds


def outcome_class(F):
    if F.parsed is False:
        return 'parse-error'
    if not F.update_apps:
        return 'no-update'
    if F.plan_ok is False:
        return 'plan-error'
    if F.decision == 'DeferredByPolicy':
        return 'deferred'
    if F.decision == 'DeniedByPolicy':
        return 'denied'
    if F.results is not None:
        return 'install-failed' if 'Failed' in F.results else 'install-ok'
    return 'other'


def path_key(ex, st, F):
    return (F.parsed, tuple((a.has_update, known_index(ex, st, F, a.id)) for a in F.resp_apps), F.plan_ok, F.decision,
            tuple(F.results or ()), F.reboot_needed, len(F.apps))


def result_shape(ex, st):
    r = st.result
    d = dval(ex, st, ex.discr_of(st, r).t)
    if d == 1:
        e = payload(ex, st, r, 1, 0, 'state_machine::UpdateCheckError')
        return ('Err', dval(ex, st, ex.discr_of(st, e).t))
    if d is None:
        return ('undecided',)
    tup = payload(ex, st, r, 0, 0, None)
    resp = ex.child(st, tup, 0, 'update_check::Response')
    rb = ex.child(st, tup, 1, 'RebootAfterUpdate<IR>')
    ars = ex.child(st, resp, 0, 'std::vec::Vec<update_check::AppResponse>')
    acts = []
    for v in vec_items(ex, st, ars, 'update_check::AppResponse'):
        acts.append(dval(ex, st, ex.discr_of(st, ex.child(st, v, fidx(ex, 'AppResponse', 'result'), 'update_check::Action')).t))
    return ('Ok', tuple(acts), dval(ex, st, ex.discr_of(st, rb).t))


def check_states(ex, st, F, D, coverage):
    if D.failed:
        return
    cls = outcome_class(F)
    coverage.add(cls)
    y = F.ynames
    states = [n for n in y if n.startswith('StateChange(')]
    def has(s):
        return ('StateChange(%s)' % s) in y
    def bad(msg):
        D.failed = D.failed or ('violated', '%s [outcome %s; announced %s]' % (msg, cls, y), None, st)
    if not y or not y[0].startswith('StateChange(CheckingForUpdates'):
        return bad('the first announcement is not CheckingForUpdates')
    sv = F.yields[0][2]
    src = payload(ex, st, sv, ex.src.variant_index('State', 'CheckingForUpdates'), 0, 'InstallSource')
    psrc = ex.child(st, Tree({}, 'params', 'RequestParams'), fidx(ex, 'RequestParams', 'source'), 'InstallSource')
    D.require(st, ex.discr_of(st, src).t == ex.discr_of(st, psrc).t, 'CheckingForUpdates carries the install source of the policy\'s parameters')
    if y.count('StateChange(CheckingForUpdates)') != 1:
        return bad('CheckingForUpdates announced more than once')
    expect = {
        'ErrorCheckingForUpdate': cls == 'parse-error',
        'NoUpdateAvailable': cls == 'no-update',
        'InstallationDeferredByPolicy': cls == 'deferred',
        'InstallingUpdate': cls in ('plan-error', 'install-ok', 'install-failed'),
        'InstallationError': cls in ('plan-error', 'install-failed'),
    }
    for s, want in expect.items():
        n = y.count('StateChange(%s)' % s)
        if want and n != 1:
            return bad('%s announced %d times, expected once' % (s, n))
        if not want and n != 0:
            return bad('%s announced although it does not apply' % s)
    for s in ('Idle', 'WaitingForReboot'):
        if has(s):
            return bad('%s announced from inside the check' % s)
    nresp = y.count('OmahaServerResponse')
    if (F.parsed and nresp != 1) or (not F.parsed and nresp != 0):
        return bad('server response announced %d times with parsed=%s' % (nresp, F.parsed))
    if F.parsed:
        i = y.index('OmahaServerResponse')
        v = [yy for yy in F.yields if yy[0] == 'OmahaServerResponse'][0][2]
        pv = payload(ex, st, v, ex.src.variant_index('StateMachineEvent', 'OmahaServerResponse'), 0, 'protocol::response::Response')
        if not ex.veq(pv, F.resp):
            return bad('the announced server response is not the parsed one')
        if i != 1:
            return bad('server response not announced right after CheckingForUpdates')
    nerr = y.count('InstallerError')
    want_err = len([r for r in (F.results or []) if r == 'Failed'])
    if nerr != want_err:
        return bad('%d installer-error events for %d failed apps' % (nerr, want_err))
    if want_err:
        i = y.index('StateChange(InstallationError)')
        if y[i - want_err:i] != ['InstallerError'] * want_err:
            return bad('installer errors are not announced right before InstallationError')
    if cls in ('install-ok', 'install-failed', 'plan-error'):
        if y.index('StateChange(InstallingUpdate)') > (y.index('StateChange(InstallationError)') if has('InstallationError') else 10 ** 6):
            return bad('InstallationError before InstallingUpdate')
    allowed = {'StateChange(CheckingForUpdates)', 'OmahaServerResponse', 'InstallerError', 'InstallProgressChange'} | set('StateChange(%s)' % s for s in expect)
    extra = [n for n in y if n not in allowed]
    if extra:
        return bad('unexpected announcements %s' % extra)


def check_result(ex, st, F, D):
    if D.failed:
        return
    cls = outcome_class(F)
    r = st.result
    rd = ex.discr_of(st, r).t
    uce = payload(ex, st, r, 1, 0, 'state_machine::UpdateCheckError')
    if cls == 'parse-error':
        D.require(st, z3.And(rd == 1, ex.discr_of(st, uce).t == ex.src.variant_index('UpdateCheckError', 'ResponseParser')), 'unparseable body -> Err(ResponseParser)')
        return
    if cls == 'plan-error':
        D.require(st, z3.And(rd == 1, ex.discr_of(st, uce).t == ex.src.variant_index('UpdateCheckError', 'InstallPlan')), 'plan creation failure -> Err(InstallPlan)')
        return
    if dval(ex, st, rd) != 0:
        D.failed = ('violated', 'outcome %s but the check returned an error (%s)' % (cls, F.story[-6:]), None, st)
        return
    tup = payload(ex, st, r, 0, 0, None)
    resp = ex.child(st, tup, 0, 'update_check::Response')
    rb = ex.child(st, tup, 1, 'RebootAfterUpdate<IR>')
    ars = vec_items(ex, st, ex.child(st, resp, 0, 'std::vec::Vec<update_check::AppResponse>'), 'update_check::AppResponse')
    if len(ars) != len(F.resp_apps):
        D.failed = ('violated', 'result lists %d apps, response had %d' % (len(ars), len(F.resp_apps)), None, st)
        return
    k = 0
    for j, (ar, ra) in enumerate(zip(ars, F.resp_apps)):
        aid = as_str(ex, st, ex.child(st, ar, fidx(ex, 'AppResponse', 'app_id'), 'String'))
        D.require(st, aid.t == ra.id.t, 'result app %d carries the id of response app %d' % (j, j))
        coh = ex.child(st, ar, fidx(ex, 'AppResponse', 'cohort'), 'protocol::Cohort')
        if not ex.veq(coh, ra.cohort):
            D.failed = D.failed or ('violated', 'result app %d does not carry its own cohort' % j, None, st)
            return
        act = variant_name(ex, 'Action', dval(ex, st, ex.discr_of(st, ex.child(st, ar, fidx(ex, 'AppResponse', 'result'), 'update_check::Action')).t))
        if cls == 'no-update':
            want = 'NoUpdate'
        elif cls == 'deferred':
            want = 'DeferredByPolicy'
        elif cls == 'denied':
            want = 'DeniedByPolicy'
        else:
            if ra.has_update:
                want = {'Installed': 'Updated', 'Deferred': 'DeferredByPolicy', 'Failed': 'InstallPlanExecutionError'}[F.results[k]]
                k += 1
            else:
                want = 'NoUpdate'
        if act != want:
            D.failed = D.failed or ('violated', 'result app %d has action %s, expected %s (outcome %s, installer results %s)' % (j, act, want, cls, F.results), None, st)
            return
    if cls == 'install-ok' and F.reboot_ev is not None:
        needed = z3.Bool(F.reboot_ev.out + '!out')      # the policy's answer (possibly merged over both values)
        D.require(st, ex.discr_of(st, rb).t == z3.If(needed, 0, 1), 'reboot pending iff installed without failure and policy says a reboot is needed')
        if ex.check(st, [needed]) == 'sat':
            ir = payload(ex, st, rb, 0, 0, None)
            if not ex.veq(ir, ex.child(st, F.install_out, 0, None)):
                D.failed = D.failed or ('violated', 'the pending reboot does not carry the installer\'s result', None, st)
    else:
        D.require(st, ex.discr_of(st, rb).t == 1, 'no reboot pending unless an install completed without failure')


def report_events(ex, st, rep):
    """[(app value, event value)] added to the builder of this report, in order"""
    out = []
    for op in builder_ops(rep):
        if op[0] == 'add_event':
            a = op[1]
            av = a[2] if isinstance(a, tuple) else a
            out.append((av, op[2]))
    return out


def check_reports(ex, st, F, D, DL):
    cls = outcome_class(F)
    def bad(msg):
        if not D.failed:
            D.failed = ('violated', '%s [outcome %s; path %s]' % (msg, cls, F.story), None, st)
    # which app-set apps are "known offered": app id equals the id of an offered response app
    offered = []      # (app index, response app) in app-set order; the version map keeps the last offer per id
    for i in range(len(F.apps)):
        for ra in reversed(F.update_apps):
            eq = dval(ex, st, F.app_ids[i].t == ra.id.t)
            if eq is None:
                D.failed = D.failed or ('inconclusive', 'path leaves an id comparison open', None, st)
                return
            if eq == 1:
                offered.append((i, ra))
                break
    # expected reports: list of (kind, [(app index, event kind, response app or None)])
    exp = []
    if cls == 'parse-error':
        exp.append(('single', [(i, 'parse', None) for i in range(len(F.apps))]))
    elif cls == 'plan-error':
        exp.append(('single', [(i, 'plan', ra) for i, ra in last_offer(offered)]))
    elif cls == 'deferred':
        exp.append(('single', [(i, 'deferred', ra) for i, ra in last_offer(offered)]))
    elif cls == 'denied':
        exp.append(('single', [(i, 'denied', ra) for i, ra in last_offer(offered)]))
    elif cls in ('install-ok', 'install-failed'):
        exp.append(('single', [(i, 'started', ra) for i, ra in last_offer(offered)]))
        per = []
        installed = []
        for k, ra in enumerate(F.update_apps):
            ki = known_index(ex, st, F, ra.id)
            if ki == 'undecided':
                D.failed = D.failed or ('inconclusive', 'path leaves an id comparison open', None, st)
                return
            if ki is not None:
                per.append((ki, F.results[k], ra))
                if F.results[k] == 'Installed':
                    installed.append((ki, ra))
        exp.append(('perapp', per))
        if installed:
            # the update-complete report filters by id through the version map: last offer with that id wins
            exp.append(('single', [(i, 'complete', lastra(F, ex, st, i)) for i, _ in installed]))
    if len(F.reports) != len(exp):
        return bad('%d event reports sent, expected %d' % (len(F.reports), len(exp)))
    sid0 = op_named(builder_ops(F.check_req), 'session_id')
    rids = [getattr(op_named(builder_ops(F.check_req), 'request_id')[-1][1], 'origin', None)] if op_named(builder_ops(F.check_req), 'request_id') else [None]
    nlost_expected = 0
    for rep, (kind, items) in zip(F.reports, exp):
        ops = builder_ops(rep)
        new = op_named(ops, 'new')
        if not new or not params_is(new[0][2]):
            return bad('an event report was built with other request parameters than the policy returned')
        sid = op_named(ops, 'session_id')
        rid = op_named(ops, 'request_id')
        if not sid or not sid0 or not ex.veq(sid[-1][1], sid0[-1][1]):
            return bad('an event report does not carry the session id of the check')
        ro = getattr(rid[-1][1], 'origin', None) if rid else None
        guid_events = [x.out for x in st.trace if x.kind == 'env' and x.name == 'GUID::new']
        if ro is None or ro in rids or ro not in guid_events or ro == getattr(sid0[-1][1], 'origin', None):
            return bad('an event report does not carry a fresh request id')
        rids.append(ro)
        evs = report_events(ex, st, rep)
        if len(evs) != len(items):
            return bad('a report carries %d events, expected %d (%s)' % (len(evs), len(items), [k for _, k, _ in items]))
        for (av, evv), (ai, ek, ra) in zip(evs, items):
            if not (isinstance(av, Tree) and av.origin == 'app%d' % ai):
                return bad('event attached to the wrong app (expected app %d)' % ai)
            ef = event_facts(ex, st, evv)
            want = expect_event(ek)
            if (ef['type'], ef['result'], ef['errorcode']) != want:
                return bad('event for app %d is %s, expected %s' % (ai, (ef['type'], ef['result'], ef['errorcode']), want))
            # previous version = the app's version ; next version = manifest version of its offer (if any)
            pv = ef['prev']
            pvd = dval(ex, st, ex.discr_of(st, pv).t)
            ver = ex.child(st, F.apps[ai], fidx(ex, 'common::App', 'version'), 'version::Version')
            if pvd != 1 or not ex.veq(deref_all(ex, st, payload(ex, st, pv, 1, 0, None)), ver):
                return bad('event for app %d does not carry the app version as previous version' % ai)
            nv = ef['next']
            if ra is None:
                D.require(st, ex.discr_of(st, nv).t == 0, 'no next version without an offer')
            else:
                mv = manifest_version(ex, st, ra)
                D.require(st, z3.And(ex.discr_of(st, nv).t == mv[0], z3.Implies(mv[0] == 1, as_str(ex, st, payload(ex, st, nv, 1, 0, 'String')).t == mv[1])),
                          'next version == manifest version of the offer')
        oc = omaha_outcome(ex, st, rep)
        if oc is None:
            DL.failed = DL.failed or ('inconclusive', 'report outcome undecided', None, st)
            return
        if oc[0] == 'Err':
            nlost_expected += 1 if kind == 'single' else len(items)
    if len(F.lost) != nlost_expected:
        DL.failed = DL.failed or ('violated', '%d lost-event metrics, expected %d [path %s]' % (len(F.lost), nlost_expected, F.story), None, st)


def last_offer(offered):
    """app-set apps in order, each once, paired with the offer whose version the map holds (last one wins)"""
    out = {}
    order = []
    for i, ra in offered:
        if i not in out:
            order.append(i)
        out[i] = ra
    return [(i, out[i]) for i in order]


def lastra(F, ex, st, i):
    for ra in reversed(F.update_apps):
        if dval(ex, st, F.app_ids[i].t == ra.id.t) == 1:
            return ra
    return None


def params_is(p):
    v = p[2] if isinstance(p, tuple) else p
    return isinstance(v, Tree) and v.origin == 'params'


def manifest_version(ex, st, ra):
    """(discr term, string term) of response app's manifest version option"""
    man = ra.manifest
    md = ex.discr_of(st, man).t
    mv = payload(ex, st, man, 1, 0, 'protocol::response::Manifest')
    ver = as_str(ex, st, ex.child(st, mv, fidx(ex, 'protocol::response::Manifest', 'version'), 'String'))
    return (z3.If(md == 1, 1, 0), ver.t)


def check_gating(ex, st, F, D):
    if D.failed:
        return
    cls = outcome_class(F)
    def bad(msg):
        D.failed = D.failed or ('violated', '%s [outcome %s; path %s]' % (msg, cls, F.story), None, st)
    names = [e.name.split('>::')[-1] for e in st.trace if e.kind == 'env']
    if F.install_ev is not None:
        if F.decision != 'Ok' or F.plan_ok is not True:
            return bad('installer invoked without policy approval')
        i_dec = st.trace.index(F.decision_ev)
        i_ins = st.trace.index(F.install_ev)
        if not i_dec < i_ins:
            return bad('installer invoked before the policy was asked')
        plan_out = Tree({}, F.plan_ev.out + '!out', None)
        planv = payload(ex, st, plan_out, 0, 0, None)
        for e, pos, what in ((F.decision_ev, 1, 'update_can_start'), (F.install_ev, 1, 'perform_install')):
            a = e.args[pos]
            av = a[2] if isinstance(a, tuple) else a
            if not ex.veq(av, planv):
                return bad('%s was not given the plan returned by try_create_install_plan' % what)
    else:
        if cls in ('install-ok', 'install-failed'):
            return bad('no install although approved')
    if F.decision_ev is not None and F.plan_ok is not True:
        return bad('policy asked about a plan that was not created')
    if cls in ('deferred', 'denied', 'no-update', 'parse-error', 'plan-error') and F.install_ev is not None:
        return bad('install attempted')
    if F.reboot_ev is not None:
        if cls != 'install-ok':
            return bad('reboot_needed asked after outcome %s' % cls)
        a = F.reboot_ev.args[1]
        av = a[2] if isinstance(a, tuple) else a
        if not ex.veq(av, payload(ex, st, Tree({}, F.plan_ev.out + '!out', None), 0, 0, None)):
            return bad('reboot_needed asked about another plan')
    elif cls == 'install-ok':
        return bad('reboot_needed not asked after a successful install')
    # every builder of the check uses the policy's parameters
    for e in [F.check_req] + F.reports:
        new = op_named(builder_ops(e), 'new')
        if not new or not params_is(new[0][2]):
            return bad('a request of the check was built with other request parameters than the policy returned')
    # the plan is created from the policy's parameters and the verified response
    if F.plan_ev is not None:
        a = F.plan_ev.args[1]
        if not params_is(a):
            return bad('install plan created with other request parameters')


def monitor_alignment3(chk):
    """three offered apps: the k-th offered app gets the k-th installer result (decisions fixed: plan created,
    policy approves, reports delivered) -- catches reorderings that two results cannot show"""
    from callers import mk_assume
    o = chk.ob('result-alignment-three-offers', 'with three apps offered an update and every combination of installer results, result app j carries the action of its own installer result and the per-app report events follow the response order')
    inner = mk_assume('tail')

    def assume(ex, st, name, val, ty):
        base = name[:-4] if name.endswith('!out') else name
        if base == 'do_omaha_request' or base.endswith('update_can_start') or base.endswith('try_create_install_plan') or base == 'parse_json_response':
            st.pc.append(ex.discr_of(st, val, ty).t == 0)
            return
        if base.endswith('reboot_needed'):
            st.pc.append(z3.Not(z3.Bool(st.trace[-1].out + '!out')) if False else z3.BoolVal(True))
        return inner(ex, st, name, val, ty)
    ex, res = explore_puc(chk, 'tail', 1, 3, 'contract', cfg=dict(env_assume=assume, max_paths=60000))
    D = Decide(chk, ex, o, cross=False)
    DL = Decide(chk, ex, chk.ob('_tmp', ''), cross=False)
    n3 = 0
    for st in res:
        if st.status != 'done':
            D.no_bad_status([st])
            continue
        F = decode_path(ex, st, 1)
        if F.undecided or F.results is None or len(F.results) != len(F.update_apps):
            continue
        if len(F.update_apps) == 3:
            n3 += 1
        check_result(ex, st, F, D)
        check_reports(ex, st, F, D, DL)
    chk.obligations = [x for x in chk.obligations if x.name != '_tmp']
    if n3 == 0:
        D.failed = D.failed or ('inconclusive', 'vacuous: no path with three offered apps', None, None)
    f = D.done()
    if f and f[0] == 'violated':
        o.key = o.name
        o.cex = {'path': story(ex, f[3])} if f[3] is not None else None
        import conform
        conform.confirm(chk, D, ex, 1)
    chk.extra['alignment3_paths'] = len(res)
    chk.absorb(ex)
