#!/usr/bin/env python3
"""C20 — Versions parse, print and order numerically."""
import sys, os
sys.path.insert(0, os.path.dirname(os.path.abspath(__file__)))
from smbase import *
import kanirun, smodels
from mir import parse_body


def ref_parse(bs):
    """python reference of the version grammar on a byte string"""
    try:
        s = bytes(bs).decode('utf-8')
    except UnicodeDecodeError:
        return None
    parts = s.split('.')
    if not (1 <= len(parts) <= 4):
        return None
    out = []
    for p in parts:
        q = p[1:] if p.startswith('+') else p
        if not q or not all(c in '0123456789' for c in q) or int(q) > 0xFFFFFFFF:
            return None
        out.append(int(q))
    return out + [0] * (4 - len(out))


def check_paths(chk, ex, D, o, res, bs, bin_dev):
    for st in res:
        if st.status != 'done' or 'split' not in st.extra:
            continue
        L, mask = st.extra['split']
        # independent spec for this length / dot mask
        pieces = []
        start = 0
        for i in range(L + 1):
            if i == L or mask[i]:
                pieces.append((start, i))
                start = i + 1
        valid = z3.BoolVal(1 <= len(pieces) <= 4)
        vals = []
        for (a, b) in pieces:
            seg = bs[a:b]
            plus = z3.And(len(seg) >= 1, seg[0] == 43) if seg else z3.BoolVal(False)
            v1 = z3.IntVal(0)
            d1 = []
            for c in seg:
                v1 = v1 * 10 + (c - 48)
                d1.append(z3.And(c >= 48, c <= 57))
            v2 = z3.IntVal(0)
            d2 = []
            for c in seg[1:]:
                v2 = v2 * 10 + (c - 48)
                d2.append(z3.And(c >= 48, c <= 57))
            okp = z3.If(plus, z3.And(len(seg) >= 2, *d2) if len(seg) >= 2 else z3.BoolVal(False),
                        z3.And(len(seg) >= 1, *d1) if seg else z3.BoolVal(False))
            val = z3.If(plus, v2, v1)
            valid = z3.And(valid, okp, val <= 0xFFFFFFFF)
            vals.append(val)
        vals = (vals + [z3.IntVal(0)] * 4)[:4]
        r = st.result
        rd = ex.discr_of(st, r).t
        ver = payload(ex, st, r, 0, 0, 'version::Version')
        arr = ex.child(st, ver, 0, '[u32; 4]')
        comps = [ex.child(st, arr, i, 'u32').t for i in range(4)]
        prop = z3.If(valid, z3.And(rd == 0, *[c == v for c, v in zip(comps, vals)]), rd == 1)
        m = D.require(st, prop, 'from_str == grammar (len %d, dots %s)' % (L, ''.join('.' if x else 'x' for x in mask)))
        if m is not None:
            bytes_ = [mval(m, bs[i]) for i in range(L)]
            rep = common.run_replay(bin_dev, {'kernel': 'version.parse', 'bytes': bytes_})
            ref = ref_parse(bytes_)
            o.cex = {'bytes': bytes_, 'text': bytes(bytes_).decode('latin-1'), 'reference': ref}
            o.replayed = rep
            o.key = o.name
            real_ok = rep.get('ok')
            if (ref is None) == (not real_ok):
                # the real code agrees with the reference on acceptance; compare the value through printing
                if ref is None or rep.get('printed') == '.'.join(str(x) for x in ref):
                    D.failed = ('inconclusive', 'model did not reproduce natively: %r' % rep, None, st)


def run(chk):
    nbytes = 9 if chk.tier == 'quick' else 11
    chk.bounds['version string bytes'] = '0..=%d, every byte value 0..=127' % nbytes
    # ---- K: ordering / From for all u32^4
    names = ['version_order_is_lexicographic', 'version_from_arrays_zero_fills']
    res, wall, out = kanirun.run_harnesses(names)
    for n, desc in zip(names, ('ordering and equality are numeric, component-wise, left to right, for all u32^4 pairs (Kani/CBMC over the compiled code)',
                               'conversion from 1-4 element arrays zero-fills and is injective on 4-arrays (Kani/CBMC)')):
        o = chk.ob('kani:' + n, desc)
        r = res[n]
        o.wall_s = r['time_s'] or wall
        if r['status'] == 'success':
            o.status = 'holds'
            o.detail = 'VERIFICATION SUCCESSFUL, covers %s, unwind 18 with unwinding assertions' % (r['covers'],)
        elif r['status'] == 'failed':
            o.status = 'violated'
            o.detail = 'Kani: ' + r['detail']
            o.key = n
            o.cex = {'kani_failed_checks': r['detail']}
        else:
            o.status = 'inconclusive'
            o.detail = r['detail'][:300]
    chk.extra['kani'] = dict((n, res[n]) for n in names)
    chk.stats['queries'] += len(names)
    chk.functions['kani harnesses (kani/src/lib.rs)'] = {'harnesses': names}
    # ---- M: from_str on all byte strings up to the bound, and on all dot-free strings up to 21 bytes (the
    # overflow boundary of every integer width up to u64 lies inside: 2^32 has 10 digits, 2^64 has 20)
    ex = make_sm_executor(chk, dict(unroll=24, max_paths=400000), cuts=())
    fn = find_method(ex, '<Version as FromStr>::from_str')
    bin_dev = common.build_replay('dev')
    wide = 21
    chk.bounds['dot-free version string bytes'] = '0..=%d, every byte value 0..=127 except "."' % wide
    npaths = 0
    for oname, desc, nb, nodots in (
            ('parser-equals-grammar', 'Version::from_str(s) == Ok(parts zero-filled) iff s is 1-4 dot-separated [+]digits parts each <= u32::MAX, else Err; no panic; for every ASCII string within the bound', nbytes, False),
            ('parser-overflow-boundary', 'the same equivalence for every dot-free ASCII string of up to %d bytes: a single number is accepted iff it is [+]digits and <= u32::MAX (leading zeros allowed), whatever its length' % wide, wide, True)):
        o = chk.ob(oname, desc)
        D = Decide(chk, ex, o, cross=False)
        st0 = State()
        pre = 's.' if not nodots else 'w.'
        ln = z3.Int(pre + 'len')
        ex.axioms[pre + 'len'] = z3.And(ln >= 0, ln <= nb)
        bs = []
        for i in range(nb):
            b = z3.Int(pre + 'b%d' % i)
            ex.axioms[pre + 'b%d' % i] = z3.And(b >= 0, b <= 127)
            bs.append(b)
            if nodots:
                st0.pc.append(b != 46)
        s_in = Obj('bstr', (ln, tuple(bs)))
        res = ex.run_fn(fn, [s_in], st0)
        npaths += len(res)
        D.no_bad_status(res)
        check_paths(chk, ex, D, o, res, bs, bin_dev)
        D.done()
    chk.extra['from_str_paths'] = npaths
    # validate the encoding on concrete strings (repo test inputs and boundary cases) through the real code
    tests = ['1.2.3.4', '1.2.3', '1.2', '1', '3.2.1', '.', '', '1.2.3.4.5', '1.2.3.', '.1', 'a', '+1.2', '-1', '1..2', '4294967295', '4294967296', '01.002', ' 1', '1 ']
    bad = []
    for t in tests:
        bts = list(t.encode())
        rep = common.run_replay(bin_dev, {'kernel': 'version.parse', 'bytes': bts})
        ref = ref_parse(bts)
        if (ref is None) != (not rep.get('ok')) or (ref is not None and rep.get('printed') != '.'.join(str(x) for x in ref)):
            bad.append((t, ref, rep))
        if ref is not None and rep.get('reparse_equal') is not True:
            bad.append((t, 'parse(print(v)) != v', rep))
        if ref is not None and rep.get('json') != '"%s"' % '.'.join(str(x) for x in ref):
            bad.append((t, 'json form', rep))
    chk.validated += len(tests)
    o2 = chk.ob('reference-vs-native', 'the reference grammar used as oracle agrees with the real from_str / to_string / serde on the repo\'s own test strings and boundary strings (translator validation; also shows print = four-part canonical form, parse(print(v)) = v and JSON = that string on these inputs)')
    o2.status = 'holds' if not bad else 'inconclusive'
    o2.detail = '%d strings agree' % len(tests) if not bad else 'oracle disagrees with the real code on %r' % (bad[:2],)
    # ---- delegation structure of print / serde (on the MIR)
    o3 = chk.ob('print-and-serde-delegate', 'Display formats the four components with "." through itertools::format; Debug forwards to Display; Serialize emits to_string() via serialize_str; the deserialize visitor calls from_str (checked on the MIR call structure)')
    want = {
        '<Version as Display>::fmt': ['Itertools>::format', 'Formatter::<\'_>::write_fmt|write_fmt'],
        '<Version as Debug>::fmt': ['<Version as Display>::fmt|Display>::fmt'],
        '<Version as Serialize>::serialize': ['to_string', 'serialize_str'],
        '<VersionVisitor as Visitor>::visit_str': ['from_str'],
    }
    problems = []
    for key, needs in want.items():
        fl = ex.defs.get(key)
        if not fl:
            problems.append('missing ' + key)
            continue
        parse_body(fl[0])
        calls = [b.term.func for b in fl[0].blocks.values() if b.term is not None and b.term.kind == 'call']
        for need in needs:
            if not any(any(alt in c for alt in need.split('|')) for c in calls):
                problems.append('%s does not call %s (calls: %s)' % (key, need, [c[:40] for c in calls]))
        ex.encoded[fl[0].name] = (fl[0].text_hash, fl[0].nlines)
    o3.status = 'holds' if not problems else 'violated'
    o3.detail = 'call structure as expected' if not problems else '; '.join(problems)[:400]
    o3.key = o3.name
    chk.absorb(ex)
    chk.assumptions += [
        'str::split(char) forks on the length and separator positions; str::parse::<u32> is the Rust FromStr grammar ([+]digits, <= u32::MAX); strings are ASCII within the bound (non-ASCII bytes cannot contain dots or digits and make every part invalid)',
        'core::fmt / itertools formatting and serde_json quoting are trusted (print side checked structurally and on concrete strings only)',
        'Kani 0.68 / CBMC 6.11 on the compiled crate for ordering and From (unwind 18 = 16-byte memcmp + 2, unwinding assertions on)',
    ]


if __name__ == '__main__':
    chk = Check('C20')
    try:
        run(chk)
    except Exception as e:          # nothing the engine cannot digest may look like a verdict: exit 2
        import traceback
        o = chk.ob('engine', 'executor could not interpret the code')
        o.status = 'inconclusive'
        o.detail = ('%s: %s' % (type(e).__name__, e)) if not isinstance(e, Inconclusive) else str(e)
        if not isinstance(e, Inconclusive):
            o.detail += ' | ' + ' <- '.join(l.strip() for l in traceback.format_exc().strip().split('\n')[-7:-1:2])
    sys.exit(chk.finish())
