#!/usr/bin/env python3
"""C01 — CUP verification accepts exactly the authentic responses (structure; crypto primitives abstract)."""
import sys, os
sys.path.insert(0, os.path.dirname(os.path.abspath(__file__)))
from smbase import *
from smodels import as_str, env_event, mk_vec, pattern, alloc, bstr_of
from callers import dval, variant_name
from tailmon import fidx
import smodels, c15

CVE = 'cup_ecdsa::CupVerificationError'


def sv(a):
    while isinstance(a, tuple) and a and a[0] == 'ref':
        a = a[2]
    return a


def nm(v):
    """symbolic identity of a lazily named value (whatever type it was materialised at)"""
    if isinstance(v, Tree) and v.origin is not None:
        return v.origin
    if isinstance(v, Sc) and z3.is_const(v.t) and v.t.decl().kind() == z3.Z3_OP_UNINTERPRETED:
        return v.t.decl().name()
    if isinstance(v, Ptr) and isinstance(v.cell, str) and v.cell.endswith('*') and not v.path:
        return v.cell[:-1]
    return None


def same(ex, a, b):
    return ex.veq(a, b) or (nm(a) is not None and nm(a) == nm(b))


def ev(name):
    return lambda ex_, st, args, dty, canon: env_event(ex_, st, name, tuple(ex_.snapshot(st, a) for a in args), dty)


def as_bytes_fork(ex, st, args, dty, canon):
    """str::as_bytes on a bounded byte string: fork on the length, hand out a concrete-length array"""
    ln, bs = bstr_of(ex, st, args[0])
    alts = []
    for L in range(len(bs) + 1):
        def mk(L=L):
            def f(s):
                s.extra['etag_len'] = L
                return alloc(ex, s, mk_vec([Sc(bs[i], 'u8') for i in range(L)], '[u8]'), 'bytes')
            return f
        alts.append((ln == L, mk()))
    raise Fork(alts)


def from_utf8_unchecked(ex, st, args, dty, canon):
    v = smodels.deref_all(ex, st, args[0])
    items = smodels.vec_items(ex, st, v, 'u8')
    n = ex.cfg.get('max_header_bytes', 8)
    return Obj('bstr', (z3.IntVal(len(items)), tuple(x.t for x in items) + tuple(z3.IntVal(0) for _ in range(n - len(items)))))


def parse_etag(chk, nbytes):
    o = chk.ob('etag-stripping', 'parse_etag: W/"x" -> x, "x" -> x, anything else unchanged; the result is a sub-slice of the input cut at ASCII quote bytes; no panic - for every byte string up to %d bytes' % nbytes)
    ex = c15.real_builder_executor(chk, dict(max_header_bytes=nbytes, unroll=nbytes + 4))
    ex.model_patterns.insert(0, (re.compile(r'<impl str>::as_bytes$'), as_bytes_fork))
    ex.model_patterns.insert(0, (re.compile(r'from_utf8_unchecked$'), from_utf8_unchecked))
    D = Decide(chk, ex, o, cross=False)
    fn = find_fn(ex, 'parse_etag')
    ln = z3.Int('e.len')
    ex.axioms['e.len'] = z3.And(ln >= 0, ln <= nbytes)
    bs = []
    for i in range(nbytes):
        b = z3.Int('e.b%d' % i)
        ex.axioms['e.b%d' % i] = z3.And(b >= 0, b <= 255)
        bs.append(b)
    res = ex.run_fn(fn, [Obj('bstr', (ln, tuple(bs)))], State())
    D.no_bad_status(res)
    for st in res:
        if st.status != 'done':
            continue
        rl, rb = bstr_of(ex, st, st.result)
        # the rule, stated for every length (however the code looked at the string on this path)
        cases = []
        for L in range(nbytes + 1):
            weak = z3.And(bs[0] == ord('W'), bs[1] == ord('/'), bs[2] == ord('"'), bs[L - 1] == ord('"')) if L >= 4 else z3.BoolVal(False)
            quoted = z3.And(bs[0] == ord('"'), bs[L - 1] == ord('"')) if L >= 2 else z3.BoolVal(False)

            def same(off, n):
                return z3.And(rl == n, *[rb[i] == bs[off + i] for i in range(max(n, 0))]) if n >= 0 else z3.BoolVal(False)
            cases.append(z3.Implies(ln == L, z3.If(weak, same(3, L - 4), z3.If(quoted, same(1, L - 2), same(0, L)))))
        D.require(st, z3.And(*cases), 'parse_etag == stripping rule')
    f = D.done()
    if f and f[0] == 'violated':
        o.key = o.name
        if f[2] is not None:
            L = mval(f[2], ln)
            o.cex = {'bytes': [mval(f[2], bs[i]) for i in range(min(L, nbytes))]}
    chk.absorb(ex)


def verify_structure(chk):
    o = chk.ob('verify-response-structure', 'verify_response: the ETag header (to_str, parse_etag) is split at the first colon into (hex signature, hex request hash); it is accepted only if the hex hash decodes and the WHOLE decoded value equals SHA-256(retained request body), the signature hex decodes to a DER signature, and verify_response_with_signature(that signature, retained request body, response body, the key id argument, the retained nonce) succeeds; the accepted signature is returned unchanged; each failure returns its error class')
    ex = c15.real_builder_executor(chk, dict(max_header_bytes=6, unroll=12))
    D = Decide(chk, ex, o, cross=False)
    cuts = [
        (r'^(http::)?(response::)?Response::<.*>::headers$', 'Response::headers'),
        (r'^(http::)?(response::)?Response::<.*>::body$', 'Response::body'),
        (r'<impl str>::split_once::<', 'str::split_once'),
        (r'^hex::decode::<', 'hex::decode'),
        (r'as (sha2::)?(digest::)?Digest>::digest::<|Sha256.*::digest', 'Sha256::digest'),
        (r'^<\[u8\] as PartialEq>::(ne|eq)$|^<(Vec<u8>|\[u8\]|GenericArray<.*>|\[u8; 32\]) as PartialEq<.*>>::(ne|eq)$', 'bytes-compare'),
        (r'Signature::<.*>::from_bytes$|DerSignature::from_bytes$|der::Signature::<.*>::from_bytes', 'DerSignature::from_bytes'),
        (r'^parse_etag$|cup_ecdsa::parse_etag$', 'parse_etag'),
        (r'as Cupv2Verifier>::verify_response_with_signature$', 'verify_response_with_signature'),
        (r'as (signature::)?Signature>::from_bytes$', 'DerSignature::from_bytes'),
        (r'<impl \[.*\]>::(starts_with|ends_with|contains)(::<.*>)?$|<impl str>::(starts_with|ends_with|contains)(::<.*>)?$', 'partial-compare'),
    ]
    for rx, nm in cuts:
        if nm:
            ex.model_patterns.insert(0, (re.compile(rx), ev(nm)))

    def cmp_ev(ex_, st, args, dty, canon):
        v = env_event(ex_, st, 'bytes-compare', tuple(ex_.snapshot(st, a) for a in args), dty)
        st.extra[('cmpop', st.trace[-1].out)] = canon[3]
        return v
    ex.model_patterns.insert(0, (re.compile(cuts[5][0]), cmp_ev))
    ex.model_patterns.insert(0, (re.compile(r'^<(GenericArray<.*>|Vec<u8>|std::vec::Vec<u8>) as Deref>::deref$'), lambda ex_, st, args, dty, canon: args[0]))
    fn = find_method(ex, '<StandardCupv2Handler as Cupv2RequestHandler>::verify_response')
    st0 = State()
    keyid = ex.sym_int('keyid', 'u64')
    res = ex.run_fn(fn, [Ptr('handler'), Ptr('metadata'), Ptr('resp'), keyid], st0)
    D.no_bad_status(res)
    md = Tree({}, 'metadata', 'cup_ecdsa::RequestMetadata')
    M = 'cup_ecdsa::RequestMetadata'
    cover = set()
    samples = []
    for st in res:
        if st.status != 'done':
            continue
        evs = [e for e in st.trace if e.kind in ('env', 'model')]
        names = [e.name for e in evs]
        samples.append(names)
        def bad(msg):
            D.failed = D.failed or ('violated', '%s [events %s]' % (msg, names), None, st)
        r = st.result
        rd = dval(ex, st, ex.discr_of(st, r).t)
        def err_is(v):
            e = payload(ex, st, r, 1, 0, CVE)
            return z3.And(ex.discr_of(st, r).t == 1, ex.discr_of(st, e).t == ex.src.variant_index('CupVerificationError', v))
        if names[:2] != ['Response::headers', 'HeaderMap::get']:
            bad('does not start by reading the response headers')
            continue
        hname = sv(evs[1].args[1])
        if not (isinstance(hname, Obj) and 'ETAG' in str(hname.data)) and not (isinstance(hname, Sc) and 'etag' in str(hname.t).lower()):
            bad('the header consulted is not ETag (%r)' % (hname,))
            continue
        hopt = Tree({}, evs[1].out, None)
        if dval(ex, st, ex.discr_of(st, hopt).t) == 0:
            cover.add('missing')
            D.require(st, err_is('EtagHeaderMissing'), 'no ETag -> EtagHeaderMissing')
            if len(evs) != 2:
                bad('went on without an ETag')
            continue
        # to_str is a model (no event); parse_etag is an event here
        if 'parse_etag' not in names:
            cover.add('not-string')
            D.require(st, err_is('EtagNotString'), 'non-ASCII ETag -> EtagNotString')
            continue
        i = names.index('parse_etag')
        if names[i + 1:i + 2] != ['str::split_once']:
            bad('the stripped ETag is not split')
            continue
        sp = evs[i + 1]
        a_sp = smodels.deref_all(ex, st, sv(sp.args[0]))
        if not ex.veq(a_sp, Tree({}, evs[i].out, None)) and getattr(a_sp, 'origin', None) != evs[i].out and not (isinstance(a_sp, Sc) and str(a_sp.t) == evs[i].out):
            bad('split_once is not applied to the stripped ETag')
            continue
        D.require(st, sv(sp.args[1]).t == ord(':'), 'the separator is a colon')
        spo = Tree({}, sp.out, None)
        if dval(ex, st, ex.discr_of(st, spo).t) == 0:
            cover.add('malformed')
            D.require(st, err_is('EtagMalformed'), 'no colon -> EtagMalformed')
            continue
        pair = payload(ex, st, spo, 1, 0, None)
        sig_hex = ex.child(st, pair, 0, None)
        hash_hex = ex.child(st, pair, 1, None)
        rest = evs[i + 2:]
        rn = [e.name for e in rest]
        if rn[:1] != ['hex::decode'] or not same(ex, sv(rest[0].args[0]), hash_hex):
            bad('the part after the colon is not hex-decoded as the request hash')
            continue
        hd = Tree({}, rest[0].out, None)
        if dval(ex, st, ex.discr_of(st, hd).t) == 1:
            cover.add('hash-malformed')
            D.require(st, err_is('RequestHashMalformed'), 'undecodable hash -> RequestHashMalformed')
            continue
        if rn[1:3] != ['Sha256::digest', 'bytes-compare']:
            bad('the request hash is not compared with SHA-256 of the request body: %s' % rn[1:3])
            continue
        dg = rest[1]
        body = ex.child(st, md, fidx(ex, M, 'request_body'), None)
        if not same(ex, smodels.deref_all(ex, st, sv(dg.args[0])), body):
            bad('the digest is not taken over the retained request body')
            continue
        cmp_ = rest[2]
        a0, a1 = smodels.deref_all(ex, st, sv(cmp_.args[0])), smodels.deref_all(ex, st, sv(cmp_.args[1]))
        decoded = payload(ex, st, hd, 0, 0, None)
        okargs = (ex.veq(a0, Tree({}, dg.out, None)) or getattr(a0, 'origin', '').startswith(dg.out)) and (ex.veq(a1, decoded) or getattr(a1, 'origin', '').startswith(rest[0].out))
        okargs = okargs or ((ex.veq(a1, Tree({}, dg.out, None)) or getattr(a1, 'origin', '').startswith(dg.out)) and (ex.veq(a0, decoded) or getattr(a0, 'origin', '').startswith(rest[0].out)))
        if not okargs:
            bad('the comparison is not between the whole digest and the whole decoded hash')
            continue
        op = st.extra.get(('cmpop', cmp_.out))
        bv = dval(ex, st, z3.Bool(cmp_.out))
        if op not in ('ne', 'eq') or bv is None:
            D.failed = D.failed or ('inconclusive', 'comparison outcome undecided', None, st)
            continue
        mismatch = (bv == 1) if op == 'ne' else (bv == 0)
        if mismatch != (rn[3:4] != ['hex::decode']):
            bad('the request-hash comparison is acted upon with the wrong polarity')
            continue
        if rn[3:4] != ['hex::decode']:
            cover.add('hash-mismatch')
            D.require(st, err_is('RequestHashMismatch'), 'digest mismatch -> RequestHashMismatch')
            if len(rn) != 3:
                bad('went on after a hash mismatch')
            continue
        sd = rest[3]
        if not same(ex, sv(sd.args[0]), sig_hex):
            bad('the part before the colon is not hex-decoded as the signature')
            continue
        sdr = Tree({}, sd.out, None)
        if dval(ex, st, ex.discr_of(st, sdr).t) == 1:
            cover.add('sig-malformed')
            D.require(st, err_is('SignatureMalformed'), 'undecodable signature -> SignatureMalformed')
            continue
        if rn[4:5] != ['DerSignature::from_bytes']:
            bad('the decoded signature is not parsed as DER')
            continue
        fb = rest[4]
        fbr = Tree({}, fb.out, None)
        if dval(ex, st, ex.discr_of(st, fbr).t) == 1:
            cover.add('der-error')
            D.require(st, err_is('SignatureError'), 'bad DER -> SignatureError')
            continue
        sig = payload(ex, st, fbr, 0, 0, None)
        if rn[5:6] != ['Response::body'] and 'verify_response_with_signature' not in rn:
            bad('the signature is not verified')
            continue
        vi = rn.index('verify_response_with_signature') if 'verify_response_with_signature' in rn else None
        if vi is None:
            bad('verification skipped')
            continue
        v = rest[vi]
        a = [sv(x) for x in v.args]
        # (self, &signature, request_body, response_body, key id, nonce)
        if not same(ex, smodels.deref_all(ex, st, a[1]), sig):
            bad('another signature than the decoded one is verified')
            continue
        if not same(ex, smodels.deref_all(ex, st, a[2]), body):
            bad('verification does not use the retained request body')
            continue
        rb = [e for e in rest if e.name == 'Response::body']
        if len(rb) != 1 or not (ex.veq(smodels.deref_all(ex, st, a[3]), Tree({}, rb[0].out, None)) or getattr(smodels.deref_all(ex, st, a[3]), 'origin', '').startswith(rb[0].out)):
            bad('verification does not use the response body')
            continue
        D.require(st, a[4].t == keyid.t, 'verification uses the key id the request was sent with')
        if not same(ex, smodels.deref_all(ex, st, a[5]), ex.child(st, md, fidx(ex, M, 'nonce'), None)):
            bad('verification does not use the retained nonce')
            continue
        vr = Tree({}, v.out, None)
        if dval(ex, st, ex.discr_of(st, vr).t) == 1:
            cover.add('verify-failed')
            if rd != 1:
                bad('accepted although the signature did not verify')
            continue
        cover.add('accepted')
        if rd != 0 or not same(ex, payload(ex, st, r, 0, 0, None), sig):
            bad('the accepted signature is not returned unchanged')
    chk.samples.append({'verify_response_paths': samples[:10]})
    need = {'missing', 'not-string', 'malformed', 'hash-malformed', 'hash-mismatch', 'sig-malformed', 'der-error', 'verify-failed', 'accepted'}
    if not need <= cover:
        D.failed = D.failed or ('inconclusive', 'vacuous: %s missing' % sorted(need - cover), None, None)
    f = D.done()
    if f and f[0] == 'violated':
        o.key = o.name
    chk.absorb(ex)


def key_map(chk):
    o = chk.ob('key-map-construction', 'StandardCupv2Handler::new registers every configured key under its own id: the id -> key map holds exactly (latest.id, latest.key) followed by (h.id, h.key) for each historical key, and the id used for decoration is latest.id - for 0, 1 and 2 historical keys with arbitrary ids and keys')
    D = None
    for nh in (0, 1, 2):
        ex = c15.real_builder_executor(chk, dict(unroll=8, shape=lambda o_, t, n=nh: n))
        if D is None:
            D = Decide(chk, ex, o, cross=False)
        D.ex = ex
        fn = find_method(ex, 'StandardCupv2Handler::new')
        st0 = State()
        PK = 'cup_ecdsa::PublicKeys'
        KI = 'cup_ecdsa::PublicKeyAndId'
        pk = Tree({}, 'pk', PK)
        st0.cells['pk'] = pk
        res = ex.run_fn(fn, [Ptr('pk')], st0)
        D.no_bad_status(res)
        for st in res:
            if st.status != 'done':
                continue
            h = st.result
            H = 'cup_ecdsa::StandardCupv2Handler'
            mp = ex.child(st, h, fidx(ex, H, 'parameters_by_id'), None)
            lid = ex.child(st, h, fidx(ex, H, 'latest_public_key_id'), 'u64')
            latest = ex.child(st, pk, fidx(ex, PK, 'latest'), KI)
            hist = smodels.vec_items(ex, st, ex.child(st, pk, fidx(ex, PK, 'historical'), 'std::vec::Vec<%s>' % KI), KI)
            want = [latest] + list(hist)
            if not (isinstance(mp, Tree) and mp.meta and mp.meta[0] == 'map'):
                D.failed = D.failed or ('inconclusive', 'key map not built by collect(): %r' % (mp,), None, st)
                continue
            ents = [mp.f[i] for i in range(mp.meta[1])]
            if len(ents) != len(want):
                D.failed = D.failed or ('violated', '%d keys registered for %d configured keys' % (len(ents), len(want)), None, st)
                continue
            D.require(st, lid.t == ex.child(st, latest, fidx(ex, KI, 'id'), 'u64').t, 'requests are decorated with the latest key id')
            for k_, (e, w) in enumerate(zip(ents, want)):
                wid = ex.child(st, w, fidx(ex, KI, 'id'), 'u64')
                wkey = ex.child(st, w, fidx(ex, KI, 'key'), None)
                D.require(st, ex.child(st, e, 0, 'u64').t == wid.t, 'entry %d is registered under its own id' % k_)
                if not ex.veq(smodels.deref_all(ex, st, ex.child(st, e, 1, None)), wkey):
                    D.failed = D.failed or ('violated', 'key id of configured key %d (0 = latest) is bound to another key than its own' % k_, None, st)
        chk.absorb(ex)
    f = D.done()
    if f and f[0] == 'violated':
        o.key = o.name


def with_signature(chk):
    o = chk.ob('signature-check-structure', 'verify_response_with_signature verifies, under the key registered for the key id ARGUMENT (error if none), the signature over SHA-256(SHA-256(request body) || SHA-256(response body) || "<key id>:<nonce>") composed in exactly this order; make_transaction_hash feeds exactly these three parts')
    ex = c15.real_builder_executor(chk, dict(unroll=8))
    D = Decide(chk, ex, o, cross=False)
    cuts = [
        (r'as (sha2::)?(digest::)?Digest>::digest::<|Sha256.*::digest', 'Sha256::digest'),
        (r'as (sha2::)?(digest::)?Digest>::new$', 'Sha256::new'),
        (r'as (sha2::)?(digest::)?Digest>::update::<', 'Sha256::update'),
        (r'as (sha2::)?(digest::)?Digest>::finalize$', 'Sha256::finalize'),
        (r'^HashMap::<.*>::get::<', 'HashMap::get'),
        (r'as TryInto<.*>>::try_into$|as TryFrom<.*>>::try_from$', 'convert-signature'),
        (r'as (signature::)?Verifier<.*>>::verify$', 'VerifyingKey::verify'),
    ]
    for rx, nm in cuts:
        if nm:
            ex.model_patterns.insert(0, (re.compile(rx), ev(nm)))
    ex.model_patterns.insert(0, (re.compile(r' as AsRef<.*>>::as_ref$|^<(GenericArray<.*>|Vec<u8>) as Deref>::deref$'), lambda ex_, st, args, dty, canon: args[0]))
    fn = find_method(ex, '<StandardCupv2Handler as Cupv2Verifier>::verify_response_with_signature')
    st0 = State()
    keyid = ex.sym_int('keyid', 'u64')
    rq = Obj('bstr', (z3.Int('rq.len'), ()))
    res = ex.run_fn(fn, [Ptr('handler'), Ptr('sig'), Tree({}, 'reqbody', '&[u8]'), Tree({}, 'respbody', '&[u8]'), keyid, Ptr('nonce')], st0)
    D.no_bad_status(res)
    cover = set()
    samples = []
    for st in res:
        if st.status != 'done':
            continue
        evs = [e for e in st.trace if e.kind in ('env', 'model')]
        names = [e.name for e in evs]
        samples.append(names)
        def bad(msg):
            D.failed = D.failed or ('violated', '%s [events %s]' % (msg, names), None, st)
        want = ['Sha256::digest', 'Sha256::digest', 'Sha256::new', 'Sha256::update', 'Sha256::update', 'Sha256::update', 'Sha256::finalize', 'HashMap::get']
        if names[:8] != want:
            bad('transaction hash / key lookup sequence differs from the specification')
            continue
        d1, d2 = evs[0], evs[1]
        if getattr(sv(d1.args[0]), 'origin', None) != 'reqbody' or getattr(sv(d2.args[0]), 'origin', None) != 'respbody':
            bad('the two inner digests are not over request body then response body')
            continue
        u = evs[3:6]
        def is_out(v, e):
            v = smodels.deref_all(ex, st, sv(v))
            return ex.veq(v, Tree({}, e.out, None)) or getattr(v, 'origin', None) == e.out
        if not is_out(u[0].args[1], d1) or not is_out(u[1].args[1], d2):
            bad('hasher is not fed request hash then response hash')
            continue
        s3 = sv(u[2].args[1])
        fi = st.extra.get(('fmt', str(s3.t))) if isinstance(s3, Sc) else None
        if fi is None:
            bad('third component is not the formatted "<id>:<nonce>"')
            continue
        fargs = fi.f[1]
        items = [fargs.f[i] for i in sorted(k for k in fargs.f if isinstance(k, int))] if isinstance(fargs, Tree) else []
        if len(items) != 2 or not isinstance(sv(items[0].f[0]), Sc):
            bad('cup2 url parameter formatted from %d arguments' % len(items))
            continue
        D.require(st, sv(items[0].f[0]).t == keyid.t, 'the signed text names the key id argument')
        n1 = sv(items[1].f[0])
        n1 = smodels.deref_all(ex, st, n1)
        if getattr(n1, 'origin', None) != 'nonce' and not ex.veq(n1, ex.load(st, 'nonce', [])):
            bad('the signed text does not contain the nonce argument')
            continue
        tmpl = fi.f[0]
        tb = [z3.simplify(x.t).as_long() for x in tmpl.data] if isinstance(tmpl, Obj) and tmpl.kind == 'bytes' else None
        if tb is None or tb.count(ord(':')) != 1:
            bad('signed text template is not "<id>:<nonce>"')
            continue
        fin = evs[6]
        g = evs[7]
        k = sv(g.args[1])
        k = smodels.deref_all(ex, st, k)
        D.require(st, k.t == keyid.t, 'the key is looked up by the key id argument')
        gm = sv(g.args[0])
        handler = Tree({}, 'handler', 'cup_ecdsa::StandardCupv2Handler')
        if not ex.veq(smodels.deref_all(ex, st, gm), ex.child(st, handler, fidx(ex, 'cup_ecdsa::StandardCupv2Handler', 'parameters_by_id'), None)):
            bad('the key is not looked up in the handler\'s key map')
            continue
        r = st.result
        rd = dval(ex, st, ex.discr_of(st, r).t)
        ko = Tree({}, g.out, None)
        if dval(ex, st, ex.discr_of(st, ko).t) == 0:
            cover.add('key-missing')
            e = payload(ex, st, r, 1, 0, CVE)
            D.require(st, z3.And(ex.discr_of(st, r).t == 1, ex.discr_of(st, e).t == ex.src.variant_index('CupVerificationError', 'SpecifiedPublicKeyIdMissing')), 'unknown key id -> SpecifiedPublicKeyIdMissing')
            if len(evs) != 8:
                bad('went on without a key')
            continue
        vv = [e for e in evs if e.name == 'VerifyingKey::verify']
        if not vv:
            cover.add('conversion-error')
            if rd != 1:
                bad('accepted without verifying')
            continue
        v = vv[0]
        key = payload(ex, st, ko, 1, 0, None)
        if not same(ex, sv(v.args[0]), key) and not same(ex, smodels.deref_all(ex, st, sv(v.args[0])), smodels.deref_all(ex, st, key)):
            bad('verification does not use the looked-up key')
            continue
        msg = smodels.deref_all(ex, st, sv(v.args[1]))
        if not (ex.veq(msg, Tree({}, fin.out, None)) or getattr(msg, 'origin', '').startswith(fin.out)):
            bad('the verified message is not the transaction hash')
            continue
        vr = Tree({}, v.out, None)
        ok_ = dval(ex, st, ex.discr_of(st, vr).t)
        if ok_ == 0:
            cover.add('verified')
            if rd != 0:
                bad('rejected a valid signature')
        else:
            cover.add('rejected')
            if rd != 1:
                bad('accepted an invalid signature')
    chk.samples.append({'verify_with_signature_paths': samples[:6]})
    if not {'key-missing', 'verified', 'rejected'} <= cover:
        D.failed = D.failed or ('inconclusive', 'vacuous: %s' % sorted(cover), None, None)
    f = D.done()
    if f and f[0] == 'violated':
        o.key = o.name
    chk.absorb(ex)


def native_family(chk):
    """authentic exchanges and their single mutations through the real verifier, signed by an independent
    signer (replay kernel cup.verify).  Returns the list of cases whose outcome is not the specified one."""
    o = chk.ob('authentic-iff-accepted-native', 'the real verify_response on concrete exchanges signed by an independent implementation of the protocol: every authentic exchange (plain / quoted / weak ETag, latest or historical key, empty bodies, nonces with small and large bytes) is accepted and its signature returned; every single mutation (other response / request body, nonce, key id, signing key, digest order or a missing component, a flipped signature or hash bit, a shortened or empty hash, an extra ETag field, a missing or unquoted-garbage ETag) is rejected without panic.  Confirms or refutes natively what the structural obligations find on the MIR.')
    binary = common.build_replay('dev')
    bases = []
    for (req, resp, nonce, keys, kid, seed) in (
            ([1, 2, 3], [9, 9], list(range(32)), [[7, 11], [5, 12]], 7, 11),
            ([], [], [0] * 32, [[7, 11]], 7, 11),
            (list(b'{"request":{}}'), list(b'{"response":{}}'), [0x0f, 0x10, 0x00, 0xff] * 8, [[9, 21], [5, 12], [6, 13]], 6, 13),
            ([0xff] * 40, [0] * 70, [(i * 37 + 1) % 256 for i in range(32)], [[1, 31], [2, 32]], 2, 32)):
        bases.append({'kernel': 'cup.verify', 'keys': keys, 'request_body': req, 'response_body': resp, 'nonce': nonce, 'key_id': kid, 'signed': {'seed': seed}})
    cases = []
    for b in bases:
        for form in ('plain', 'quoted', 'weak'):
            cases.append((dict(b, form=form), True, 'authentic, %s ETag' % form))
        other_seed = 99
        n2 = list(b['nonce'])
        n2[3] ^= 0x10
        muts = [
            (dict(b, signed=dict(b['signed'], response_body=b['response_body'] + [1])), 'response body differs from the signed one'),
            (dict(b, signed=dict(b['signed'], request_body=b['request_body'] + [1])), 'request body differs (hash and signature are over another request)'),
            (dict(b, signed=dict(b['signed'], nonce=n2)), 'signed for another nonce'),
            (dict(b, signed=dict(b['signed'], key_id=b['key_id'] + 1)), 'signed for another key id'),
            (dict(b, signed=dict(b['signed'], seed=other_seed)), 'signed with a key that is not registered'),
            (dict(b, signed=dict(b['signed'], order=['resp', 'req', 'param'])), 'digest composed in another order'),
            (dict(b, signed=dict(b['signed'], order=['req', 'param', 'resp'])), 'digest composed in another order (param in the middle)'),
            (dict(b, signed=dict(b['signed'], order=['req', 'param'])), 'digest without the response hash'),
            (dict(b, signed=dict(b['signed'], order=['resp', 'param'])), 'digest without the request hash'),
            (dict(b, signed=dict(b['signed'], order=['req', 'resp'])), 'digest without key id and nonce'),
            (dict(b, flip_sig_bit=77), 'one signature bit flipped'),
            (dict(b, flip_hash_bit=5), 'one request-hash bit flipped'),
            (dict(b, truncate_hash=16), 'request hash shortened to a prefix'),
            (dict(b, truncate_hash=0), 'request hash empty'),
            (dict(b, suffix=':'), 'a third, empty ETag field'),
            (dict(b, suffix=':00'), 'a third ETag field'),
            (dict(b, suffix='0'), 'trailing garbage after the hash'),
            (dict(b, no_etag=True), 'no ETag'),
            (dict(b, form='raw', raw_etag='"'), 'ETag is a lone quote'),
            (dict(b, form='raw', raw_etag='W/"'), 'ETag is W/"'),
            (dict(b, form='raw', raw_etag=':'), 'ETag is a lone colon'),
        ]
        if len(b['keys']) > 1:
            # signed with another *registered* key than the one the request named
            other = [k for k in b['keys'] if k[0] != b['key_id']][0]
            muts.append((dict(b, signed=dict(b['signed'], seed=other[1])), 'signed with another registered key than the one named in the request'))
        for c, what in muts:
            if b['request_body'] == b['response_body'] and c['signed'].get('order') in (['resp', 'req', 'param'],):
                continue        # the two hashes coincide: the swapped digest is the authentic one
            cases.append((c, False, what))
    reps = common.run_replay_batch(binary, [c for c, _, _ in cases])
    bad = []
    for (c, want, what), r in zip(cases, reps):
        if r.get('panic') is not None:
            bad.append((what, 'panic: %s' % str(r.get('panic'))[:120], c))
        elif r.get('accepted') != want:
            bad.append((what, 'accepted' if r.get('accepted') else 'rejected (%s)' % r.get('error'), c))
        elif want and not r.get('returned_signature_is_the_one_sent'):
            bad.append((what, 'accepted but another signature returned', c))
    chk.validated += len(cases)
    chk.extra['native_exchanges'] = len(cases)
    if bad:
        o.status = 'violated'
        o.key = o.name
        o.detail = '%s: %s [%d of %d exchanges off]' % (bad[0][0], bad[0][1], len(bad), len(cases))
        o.cex = {'exchange': bad[0][2], 'others': [(w, g) for w, g, _ in bad[1:6]]}
        o.replayed = {'native': 'cup.verify kernel on the real StandardCupv2Handler', 'observed': bad[0][1]}
    else:
        o.status = 'holds'
        o.detail = '%d exchanges behave as specified' % len(cases)
    return bad


def run(chk):
    nbytes = 8 if chk.tier == 'quick' else 12
    nat_bad = native_family(chk)
    parse_etag(chk, nbytes)
    verify_structure(chk)
    with_signature(chk)
    key_map(chk)
    import c03
    c03.builder_setters(chk)
    c03.nonce_obligations(chk, which=('nonce-display',))     # the "<key id>:<nonce hex>" part of the signed digest
    # a deviation from the recognised call structure alone is not a verdict (an equivalent implementation may
    # look different): it stands as a violation only when the real verifier also misbehaves on a concrete exchange
    for o in chk.obligations:
        if o.name in ('verify-response-structure', 'signature-check-structure') and o.status == 'violated':
            if nat_bad:
                o.detail = '%s  [natively: %s: %s]' % (o.detail, nat_bad[0][0], nat_bad[0][1])
                o.replayed = {'native': 'cup.verify kernel', 'exchange': nat_bad[0][2]}
            else:
                o.status = 'inconclusive'
                o.detail = 'the code deviates from the recognised structure (%s) but the real verifier treats all %d concrete exchanges as specified: not decided' % (o.detail, chk.extra.get('native_exchanges', 0))
    chk.bounds.update({'etag bytes (parse_etag)': nbytes})
    chk.assumptions += [
        'SHA-256, hex decoding, DER parsing and ECDSA verification (sha2, hex, ecdsa/p256 crates) are abstract events: the check decides which values flow into which primitive and how each outcome maps to accept / error class, not the primitives themselves; injectivity of the hash is not assumed',
        'the comparison between the digest and the decoded request hash must be a whole-value (in)equality of exactly these two values (any other comparison call is not recognised and makes the run inconclusive, not passing)',
        'PEM (de)serialisation of PublicKeys and the construction of the id -> key map are not decided here',
        'HeaderValue::to_str = visible ASCII; str::split_once(\':\') is an event whose result is an arbitrary (prefix, suffix) pair',
    ]


if __name__ == '__main__':
    chk = Check('C01')
    try:
        run(chk)
    except Exception as e:          # nothing the engine cannot digest may look like a verdict: exit 2
        import traceback
        o = chk.ob('engine', 'executor could not interpret the code')
        o.status = 'inconclusive'
        o.detail = ('%s: %s' % (type(e).__name__, e)) if not isinstance(e, Inconclusive) else str(e)
        if not isinstance(e, Inconclusive):
            o.detail += ' | ' + ' <- '.join(l.strip() for l in traceback.format_exc().strip().split('\n')[-7:-1:2])
    sys.exit(chk.finish())
