"""Helpers shared by the per-property check scripts."""
import os, sys, time, json, subprocess, tempfile, re
HERE = os.path.dirname(os.path.abspath(__file__))
sys.path.insert(0, os.path.join(os.path.dirname(HERE), 'lib'))
sys.path.insert(0, os.path.join(os.path.dirname(HERE), 'mirsym'))
import z3
import common
from common import Check
from engine import Executor, State, Sc, Tree, Ptr, Obj, UNIT, Inconclusive, Event, Fork
import models


def make_executor(chk, cfg=None):
    try:
        mir, h, secs = common.get_mir()
    except common.BuildError as e:
        print('INCONCLUSIVE: ' + str(e)[:2000])
        sys.exit(2)
    chk.extra['mir_source_hash'] = h
    chk.extra['mir_regenerated_s'] = round(secs, 1)
    cfg = dict(cfg or {})
    cfg.setdefault('time_budget_s', 1500 if chk.tier == 'quick' else 6 * 3600)     # per exploration; exhausted -> exit 2
    ex = Executor(mir, common.SRC, cfg)
    models.install(ex)
    return ex


def find_fn(ex, suffix, pred=None):
    l = [f for f in ex.order if f.kind == 'fn' and (f.name == suffix or f.name.endswith('::' + suffix))
         and (pred is None or pred(f))]
    if not l:
        raise Inconclusive('function %s not found in the MIR dump (renamed or removed?)' % suffix)
    hs = set(f.text_hash for f in l)
    if len(hs) > 1:
        raise Inconclusive('function %s is ambiguous in the MIR dump (%d bodies)' % (suffix, len(l)))
    return l[0]


def find_method(ex, key):
    """by canonical key, e.g. 'ComplexTime::truncate_submicrosecond_walltime' or '<X as Trait>::m'"""
    l = ex.defs.get(key)
    if not l:
        raise Inconclusive('method %s not found in the MIR dump' % key)
    hs = set(f.text_hash for f in l)
    if len(hs) > 1:
        raise Inconclusive('method %s ambiguous (%d bodies)' % (key, len(l)))
    return l[0]


def mval(model, t):
    """python int/bool/str of term t under model (model completion on)"""
    v = model.eval(t, model_completion=True)
    if z3.is_int_value(v):
        return v.as_long()
    if z3.is_true(v):
        return True
    if z3.is_false(v):
        return False
    if z3.is_string_value(v):
        return v.as_string()
    return str(v)


_cvc5 = None


def cross_check(ex, st, extra, expect, timeout=60):
    """re-decide pc+extra with cvc5 (and the system z3 4.8) from the SMT-LIB2 text; returns list of
    (solver, verdict).  A disagreement with `expect` makes the obligation inconclusive."""
    txt = ex.smt2(st, extra)
    out = []
    with tempfile.NamedTemporaryFile('w', suffix='.smt2', delete=False, dir=common.SCRATCH) as f:
        f.write('(set-logic ALL)\n' + txt + '\n')
        p = f.name
    try:
        for name, cmd in (('cvc5', ['cvc5', '--lang', 'smt2', '--tlimit=%d' % (timeout * 1000), p]),
                          ('z3-4.8', ['/usr/bin/z3', '-T:%d' % timeout, p])):
            try:
                r = subprocess.run(cmd, stdout=subprocess.PIPE, stderr=subprocess.PIPE, text=True, timeout=timeout + 10)
                o = r.stdout.strip().split('\n')
                verdict = 'error' if any('(error' in l for l in o) else (o[0].strip() if o and o[0] else 'error')
                if verdict not in ('sat', 'unsat', 'unknown'):
                    verdict = 'error'
            except Exception:
                verdict = 'timeout'
            out.append((name, verdict))
    finally:
        os.unlink(p)
    return out


class Decide:
    """drive one obligation: run paths, check a property on each terminal state"""

    def __init__(self, chk, ex, ob, cross=True):
        self.chk, self.ex, self.ob = chk, ex, ob
        self.t0 = time.time()
        self.q0 = ex.stats['queries']
        self.p0 = ex.stats['paths']
        self._failed = None
        self.cross = cross
        self.cross_log = []
        self.nprops = 0
        self.failed_prop = None

    # `failed` as seen by the monitors: only a violation stops further checking.  An inconclusive finding on one
    # path (an abort, an undecided value) must not hide a violation found on another path afterwards -- a
    # feasible, fully executed counterexample is a violation whatever else could not be explored -- so while
    # the recorded finding is only 'inconclusive' the monitors see None and go on; a later violation replaces
    # it, a later inconclusive does not.
    @property
    def failed(self):
        return self._failed if (self._failed is not None and self._failed[0] == 'violated') else None

    @failed.setter
    def failed(self, v):
        if v is None:
            return
        if v[0] == 'violated':
            v = self._settle(v)         # a counterexample through a havocked value is only 'inconclusive'
        if self._failed is None or (self._failed[0] != 'violated' and v[0] == 'violated'):
            self._failed = v

    def _settle(self, v):
        kind, what, m, st = v
        if st is None:
            return v
        tainted = set()
        for c in st.pc:
            for n in self.ex.consts_of(c):
                if n.startswith(('hv!', 'uninit!')):
                    tainted.add(n)
        if m is not None:
            for d_ in m.decls():
                if d_.name().startswith(('hv!', 'uninit!')):
                    tainted.add(d_.name())
        if tainted and self.failed_prop is not None:
            m2 = self._independent_of_uninit(st, self.failed_prop, tainted)
            if m2 is not None:
                return ('violated', what + ' (for every content of the fields no code initialises)', m2, st)
        if tainted:
            hv = sorted(set(k for kind_, *rest in st.notes if kind_ == 'havoc' for k in rest))
            return ('inconclusive', 'counterexample depends on unmodelled calls %s (values %s): %s' % (hv[:6], sorted(tainted)[:4], what), None, st)
        return v

    def _independent_of_uninit(self, st, prop, tainted):
        """True (with a model) iff the violation stands whatever the never-initialised fields hold: the monitor
        compares whole values, including payload fields of enum variants the code never wrote; those reads are
        the monitor's, not the program's, so they are quantified universally"""
        if any(not n.startswith('uninit!') for n in tainted):
            return None
        for c in st.pc:
            if self.ex.consts_of(c) & tainted:
                if os.environ.get('VERIF_DEBUG'):
                    print('DEBUG taint in pc:', c, file=sys.stderr)
                return None
        tv = {}
        todo = [prop]
        seen = set()
        while todo:
            x = todo.pop()
            if x.get_id() in seen:
                continue
            seen.add(x.get_id())
            if z3.is_const(x) and x.decl().kind() == z3.Z3_OP_UNINTERPRETED and x.decl().name() in tainted:
                tv[x.decl().name()] = x
            else:
                todo.extend(x.children())
        if not tv:
            return None
        rng = [self.ex.axioms[n] for n in tv if self.ex.axioms.get(n) is not None]
        q = z3.ForAll(list(tv.values()), z3.Implies(z3.And(rng) if rng else z3.BoolVal(True), z3.Not(prop)))
        r, m = self.ex.solve(st, [q])
        if os.environ.get('VERIF_DEBUG'):
            print('DEBUG universal query', r, [(n, v.sort()) for n, v in tv.items()], file=sys.stderr)
        return m if r == 'sat' else None

    def require(self, st, prop, what):
        """prop: z3 Bool that must hold on state st (under its path condition).  Returns model or None."""
        if self.failed:
            return None
        self.nprops += 1
        r = self.ex.check(st, [z3.Not(prop)])       # relevant slice of the path condition only
        m = None
        if r != 'unsat':
            r, m = self.ex.solve(st, [z3.Not(prop)])
        if self.cross and r in ('sat', 'unsat'):
            cc = cross_check(self.ex, st, [z3.Not(prop)], r)
            self.cross_log.append((what, r, cc))
            for name, v in cc:
                if v in ('sat', 'unsat') and v != r:
                    self.failed = ('inconclusive', 'solver disagreement on %s: z3py=%s %s=%s' % (what, r, name, v), None, st)
                    return None
        if r == 'unknown':
            self.failed = ('inconclusive', 'solver returned unknown on: ' + what, None, st)
            return None
        if r == 'sat':
            self.failed_prop = prop
            self.failed = ('violated', what, m, st)
            self.failed_prop = None
            return m
        return None

    def no_bad_status(self, states, allow=('done',)):
        for st in states:
            if self.failed:
                return
            if st.status in allow or st.status in ('unreachable', 'infeasible'):
                continue
            if st.status == 'panic':
                r, m = self.ex.solve(st)
                if r == 'sat':
                    self.failed = ('violated', 'panic reachable: ' + str(st.info), m, st)
                elif r == 'unknown':
                    self.failed = ('inconclusive', 'solver unknown on panic path', None, st)
            elif st.status in ('abort', 'bound', 'diverged'):
                self.failed = ('inconclusive', '%s: %s' % (st.status, st.info), None, st)
            else:
                where = ['%s bb%s' % (f.fn.name[-50:], f.bb) for f in st.frames][-2:]
                self.failed = ('inconclusive', 'path ended with status %s (%s) in %s' % (st.status, st.info, where), None, st)

    def done(self):
        o = self.ob
        o.wall_s = time.time() - self.t0
        o.queries = self.ex.stats['queries'] - self.q0
        o.paths = self.ex.stats['paths'] - self.p0
        if self._failed is None:
            o.status = 'holds'
            o.detail = '%d property queries unsat on %d paths' % (self.nprops, o.paths)
            if self.cross_log:
                o.detail += '; cross-checked by ' + ','.join(sorted(set(n for _, _, cc in self.cross_log for n, v in cc if v in ('sat', 'unsat'))))
        else:
            kind, what, m, st = self._failed
            o.status = kind
            o.detail = what
        return self._failed
