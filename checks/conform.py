"""Conformance replay: a symbolic path of perform_update_check / start_update_check is turned into a script for
the native harness (real StateMachine, scripted environment); the observable story of the native run must
be the story of the symbolic path.  Used (a) to validate the engine and its models against the real code on
sampled paths of every exploration and (b) to confirm a violating path natively before it is reported."""
import json, random
from smbase import *
from callers import dval, variant_name, decode_yield, decode_metric, omaha_events, omaha_outcome, ERRS
from tailmon import decode_path, fidx
from smodels import as_str
import smodels

SKIP_METRICS = {'UpdateCheckInterval'}


def symbolic_story(ex, st):
    out = []
    for e in st.trace:
        if e.kind == 'yield':
            y = decode_yield(ex, st, e)
            if y[0] in ('ProtocolStateChange',):
                continue
            out.append('yield:%s%s' % (y[0], '(%s)' % y[1] if y[1] else ''))
        elif e.kind == 'env':
            short = e.name.split('>::')[-1].split('::')[-1]
            if e.name == 'do_omaha_request':
                oc = omaha_outcome(ex, st, e)
                if oc and oc[0] == 'Err' and oc[1] in ('Json', 'HttpBuilder', 'CupDecoration'):
                    continue
                out.append('http')
            elif e.name.endswith('report_metrics'):
                m = decode_metric(ex, st, e)[0]
                if m not in SKIP_METRICS:
                    out.append('metric:%s' % m)
            elif short in ('update_can_start', 'reboot_needed'):
                out.append('policy:' + short)
            elif short in ('try_create_install_plan', 'perform_install'):
                out.append('installer:' + short)
            elif short == 'wait_for':
                out.append('timer:wait_for')
    return out


def native_story(rep):
    out = []
    for e in rep.get('trace', []):
        k = e.get('ev')
        if k == 'yield':
            w = e['what']
            name = w.split('(')[0]
            if name == 'StateChange':
                inner = w[len('StateChange('):-1].split('(')[0]
                out.append('yield:StateChange(%s)' % inner)
            elif name == 'ProtocolStateChange':
                continue
            else:
                out.append('yield:' + name)
        elif k == 'http':
            out.append('http')
        elif k == 'metric':
            m = e['what'].split('(')[0].split(' ')[0].split('{')[0].strip()
            if m not in SKIP_METRICS:
                out.append('metric:' + m)
        elif k == 'policy' and e['op'] in ('update_can_start', 'reboot_needed'):
            out.append('policy:' + e['op'])
        elif k == 'installer' and e['op'] in ('try_create_install_plan', 'perform_install'):
            out.append('installer:' + e['op'])
        elif k == 'timer' and e['op'] == 'wait_for':
            out.append('timer:wait_for')
    return out


def id_classes(ex, st, terms):
    """assign concrete ids to string terms respecting the equalities decided on the path"""
    ids = []
    reps = []
    for t in terms:
        hit = None
        for i, r in enumerate(reps):
            eq = dval(ex, st, t == r)
            if eq == 1:
                hit = i
                break
            if eq is None:
                # undecided: choose "different" if that is consistent
                if ex.check(st, [t != r]) != 'sat':
                    hit = i
                    break
        if hit is None:
            reps.append(t)
            hit = len(reps) - 1
        ids.append('app-%d' % hit)
    return ids


def concretize(ex, st, napps):
    """script for sm.oneshot reproducing this path of perform_update_check, or (None, reason)"""
    F = decode_path(ex, st, napps)
    script = {'cup': False, 'verify': [], 'http': [], 'storage': {}}
    terms = list(x.t for x in F.app_ids) + [a.id.t for a in F.resp_apps]
    ids = id_classes(ex, st, terms)
    app_ids, resp_ids = ids[:napps], ids[napps:]
    if len(set(app_ids)) != len(app_ids):
        return None, 'app set with duplicate ids (VecAppSet storage keys collide)'
    script['apps'] = [{'id': i, 'version': '1.2.3.4'} for i in app_ids]
    # initial poll interval
    spi_path = smodels.sm_field_path(ex, ['context', 'state', 'server_dictated_poll_interval'])
    init = ex.load(State(), 'sm', [(p, None) for p in spi_path[:-1]] + [(spi_path[-1], smodels.SPI_TY)])
    if dval(ex, st, ex.discr_of(st, init).t) == 1:
        script['storage']['server_dictated_poll_interval'] = 10000000
    oms = omaha_events(st)
    body = None
    if F.parsed is False:
        body = 'this is not json'
    elif F.parsed:
        apps = []
        for a, rid in zip(F.resp_apps, resp_ids):
            ja = {'appid': rid, 'status': 'ok'}
            if a.has_update:
                uc = {'status': 'ok', 'urls': {'url': [{'codebase': 'http://x/'}]}}
                md = dval(ex, st, ex.discr_of(st, a.manifest).t) if getattr(a, 'manifest', None) is not None else 0
                if md != 0:
                    uc['manifest'] = {'version': '9.9.9.9', 'actions': {'action': []}, 'packages': {'package': [{'name': 'p', 'required': True, 'fp': 'f'}]}}
                ja['updatecheck'] = uc
            elif a.has_update is False:
                if getattr(a, 'has_uc', 1) != 0:
                    # the status class the path decided on, else one consistent with it (plain "noupdate" preferred)
                    stt = getattr(a, 'status_term', None)
                    names_ = (('NoUpdate', 'noupdate'), ('Restricted', 'restricted'), ('Error', 'error-unknownApplication'))
                    pick = 'noupdate'
                    if stt is not None:
                        for vn, txt in names_:
                            if ex.check(st, [stt == ex.src.variant_index('OmahaStatus', vn)]) == 'sat':
                                pick = txt
                                break
                    ja['updatecheck'] = {'status': pick}
            apps.append(ja)
        body = json.dumps({'response': {'server': 'prod', 'protocol': '3.0', 'app': apps}})
    first_ok_seen = False
    for k, (i, e) in enumerate(oms):
        oc = omaha_outcome(ex, st, e)
        if oc is None:
            return None, 'exchange outcome undecided'
        step = {}
        spi_v = Tree({}, e.out + '.spi', smodels.SPI_TY)
        spi_some = dval(ex, st, ex.discr_of(st, spi_v).t)
        if oc[0] == 'Ok':
            step = {'status': 200, 'body': (body if not first_ok_seen and body is not None else '')}
            first_ok_seen = True
            if spi_some == 1:
                step['headers'] = {'X-Retry-After': '10'}
            script['verify'].append(True)
        else:
            kind = oc[1]
            if kind is None:
                # the flow does not look at the error class: any deliverable failure will do
                feas = [kk for kk in ('HttpTransport', 'HttpStatus') if ex.check(st, [ex.discr_of(st, oc[2]).t == ERRS.index(kk)]) == 'sat']
                if not feas:
                    return None, 'no inducible error class for exchange %d' % k
                kind = feas[0]
            if kind in ('Json', 'HttpBuilder'):
                return None, 'request construction error %s cannot be induced from outside' % kind
            if kind == 'CupDecoration':
                if k != 0:
                    return None, 'decoration failure after the first exchange'
                script['cup'] = True
                script['decorate_fail'] = True
                continue
            if kind == 'CupValidation':
                script['cup'] = True
                step = {'status': 200, 'body': 'forged'}
                script['verify'].append(False)
            elif kind == 'HttpStatus':
                step = {'status': 500, 'body': ''}
                if spi_some == 1:
                    step['headers'] = {'X-Retry-After': '10'}
                script['verify'].append(True)
            elif kind == 'HttpTransport':
                herr = payload(ex, st, oc[2], ERRS.index('HttpTransport'), 0, 'http_request::Error')
                kf = ex.child(st, herr, 0, 'http_request::ErrorKind')
                # the class the path decided on, else any class consistent with it (plain transport preferred)
                kd = ex.discr_of(st, kf).t
                pick = None
                for nm_ in ('Transport', 'User', 'Timeout'):
                    if dval(ex, st, kd == ex.src.variant_index('ErrorKind', nm_)) == 1:
                        pick = nm_
                if pick is None:
                    for nm_ in ('Transport', 'Timeout', 'User'):
                        if ex.check(st, [kd == ex.src.variant_index('ErrorKind', nm_)]) == 'sat':
                            pick = nm_
                            break
                step = {'err': (pick or 'Transport').lower()}
            else:
                return None, 'unknown error kind'
        script['http'].append(step)
    # the native clock is monotone: paths that need the monotonic clock to run backwards are not replayable
    nmet = len([e for e in st.trace if e.kind == 'env' and e.name.endswith('report_metrics') and decode_metric(ex, st, e)[0] == 'UpdateCheckResponseTime'])
    rpc = [i for i, e in enumerate(st.trace) if e.kind == 'env' and e.name.endswith('report_metrics') and decode_metric(ex, st, e)[0] == 'RequestsPerCheck']
    natt = len([1 for i, e in oms if not rpc or i < rpc[0]])
    if nmet != natt:
        return None, 'needs a monotonic clock that runs backwards'
    script['plan'] = 'err' if F.plan_ok is False else 'ok'
    script['can_start'] = F.decision or 'Ok'
    script['install'] = F.results or []
    script['reboot_needed'] = bool(F.reboot_needed == 1)
    return script, None


def replay_path(ex, st, napps, binary):
    """-> ('match' | 'mismatch' | 'skip', detail, script, native reply)"""
    try:
        script, why = concretize(ex, st, napps)
    except Inconclusive as e:
        return 'skip', str(e), None, None
    if script is None:
        return 'skip', why, None, None
    rep = common.run_replay(binary, {'kernel': 'sm.oneshot', 'script': script}, timeout=60)
    if rep.get('error') or 'trace' not in rep:
        return 'skip', 'native harness error: %r' % (rep.get('error') or rep.get('stderr', ''))[:200], script, rep
    sym = symbolic_story(ex, st)
    nat = native_story(rep)
    if st.status == 'panic':
        ok = rep.get('panic') is not None and nat[:len(sym)] == sym[:len(nat)]
        return ('match' if ok else 'mismatch'), 'panic expected: native panic=%r' % (rep.get('panic'),), script, rep
    if nat[:len(sym)] == sym:
        return 'match', '', script, rep
    # first divergence
    k = 0
    while k < min(len(sym), len(nat)) and sym[k] == nat[k]:
        k += 1
    return 'mismatch', 'stories diverge at step %d: symbolic %s vs native %s' % (k, sym[k:k + 3], nat[k:k + 3]), script, rep


def validate_sample(chk, ex, states, napps, k=12, label=''):
    """replay a seeded sample of explored paths natively; returns (validated, mismatches)"""
    binary = common.build_replay('dev')
    rnd = random.Random(chk.seed * 7919 + len(states))
    pool = [s for s in states if s.status == 'done']
    rnd.shuffle(pool)
    # prefer long paths (more behaviour exercised), but keep some short ones
    pool.sort(key=lambda s: -len(s.trace))
    pick = pool[:max(1, k // 2)] + rnd.sample(pool[max(1, k // 2):], min(len(pool) - max(1, k // 2), k - max(1, k // 2))) if len(pool) > k else pool
    ok = 0
    bad = []
    skipped = 0
    reasons = {}
    for st in pick:
        r, detail, script, rep = replay_path(ex, st, napps, binary)
        if r == 'match':
            ok += 1
        elif r == 'mismatch':
            bad.append({'detail': detail, 'script': script})
        else:
            skipped += 1
            reasons[detail[:60]] = reasons.get(detail[:60], 0) + 1
    chk.validated += ok
    chk.extra.setdefault('conformance', []).append({'exploration': label, 'paths_replayed_natively': ok + len(bad), 'matching': ok, 'not_replayable': skipped, 'reasons': reasons})
    return ok, bad


def confirm(chk, D, ex, napps):
    """after D.done(): replay the violating path natively.  Reproduced -> the violation stands with the script as
    replay input; the native run takes another course -> inconclusive (exit 2); not replayable -> it stands as a
    symbolic counterexample on the real MIR and says so."""
    f = D.failed
    if not f or f[0] != 'violated' or f[3] is None:
        return
    st = f[3]
    o = D.ob
    try:
        binary = common.build_replay('dev')
        r, detail, script, rep = replay_path(ex, st, napps, binary)
    except Exception as e:         # never let the confirmation step hide the finding
        r, detail, script, rep = 'skip', 'replay failed: %r' % (e,), None, None
    o.cex = dict(o.cex or {}, script=script)
    if r == 'match':
        o.replayed = {'native': 'the real state machine, driven by this script, takes exactly the path of the counterexample', 'story': native_story(rep)[:60]}
    elif r == 'mismatch':
        o.status = 'inconclusive'
        o.detail = 'counterexample did not reproduce natively (%s): %s' % (detail, o.detail)
        o.replayed = {'native': 'diverged', 'detail': detail}
    else:
        o.replayed = {'native': 'not replayable: %s; counterexample is a feasible path of the real MIR (solver-checked)' % detail}
