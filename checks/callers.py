"""Explorations of the callers of the exchange function (perform_update_check, start_update_check,
report_omaha_event_and_update_context, ping_omaha) with the exchange itself replaced by its contract
(see smodels.m_do_omaha_cut), and the monitors of C02/C04/C05/C06/C08/C10 on their paths."""
from smbase import *
from smodels import mk_vec, vec_items
from models import dur_parts, time_parts, NANOS
import smodels

ERRS = ['Json', 'HttpBuilder', 'CupDecoration', 'CupValidation', 'HttpTransport', 'HttpStatus']


def dval(ex, st, term):
    """the unique integer value of term on this path, or None if the path does not fix it"""
    s = z3.simplify(term)
    if z3.is_int_value(s):
        return s.as_long()
    if z3.is_true(s):
        return 1
    if z3.is_false(s):
        return 0
    v = ex.eval_on_path(st, term)
    if v is None:
        return None
    if z3.is_int_value(v):
        vv = v.as_long()
    elif z3.is_true(v):
        vv = 1
    elif z3.is_false(v):
        vv = 0
    else:
        return None
    tv = z3.BoolVal(bool(vv)) if z3.is_bool(term) else z3.IntVal(vv)
    if ex.check(st, [term != tv]) == 'unsat':
        return vv
    return None


def variant_name(ex, enum, d):
    vs = ex.src.enums.get(enum) or []
    disc = ex.src.enum_discr.get(enum)
    if disc:
        for v in vs:
            if ex.src.variant_discr(enum, v) == d:
                return v
        return None
    return vs[d] if d is not None and 0 <= d < len(vs) else None


class Ev:
    """decoded view of a trace event on a given path"""

    def __init__(self, ex, st, e, idx):
        self.ex, self.st, self.e, self.idx = ex, st, e, idx
        self.kind = e.kind
        self.name = e.name.split('::')[-1] if e.kind == 'env' else e.name
        self.full = e.name

    def __repr__(self):
        return self.name


def decode_yield(ex, st, e):
    """('StateChange', 'InstallingUpdate') / ('OmahaServerResponse',) / ..."""
    v = e.args[0]
    d = dval(ex, st, ex.discr_of(st, v).t)
    vn = variant_name(ex, 'StateMachineEvent', d)
    if vn == 'StateChange':
        sv = payload(ex, st, v, 0, 0, 'state_machine::State')
        sd = dval(ex, st, ex.discr_of(st, sv).t)
        return (vn, variant_name(ex, 'State', sd), sv)
    return (vn, None, v)


def decode_metric(ex, st, e):
    m = e.args[1]
    d = dval(ex, st, ex.discr_of(st, m).t)
    return variant_name(ex, 'Metrics', d), m


def story(ex, st):
    """compact human-readable rendering of a path's trace"""
    out = []
    for e in st.trace:
        if e.kind == 'yield':
            y = decode_yield(ex, st, e)
            out.append('yield:%s%s' % (y[0], '(%s)' % y[1] if y[1] else ''))
        elif e.kind == 'env' and e.name.endswith('report_metrics'):
            out.append('metric:%s' % decode_metric(ex, st, e)[0])
        elif e.kind in ('env', 'model'):
            out.append(e.name.split('>::')[-1].split('::')[-1] if e.kind == 'env' else e.name)
    return out


# ------------------------------------------------------------------ exploration of perform_update_check

def mk_assume(mode, nloop_hint=None):
    """environment assumptions per exploration mode (each listed in the evidence)"""
    def assume(ex, st, name, val, ty):
        base = name[:-4] if name.endswith('!out') else name
        short = base.split('>::')[-1]
        if name.endswith('report_metrics'):
            st.pc.append(ex.discr_of(st, val, ty).t == 0)
            return
        if 'Storage>::' in base and name.endswith('!out') and short in ('set_int', 'set_string', 'set_bool', 'remove', 'commit'):
            if mode != 'storage':
                st.pc.append(ex.discr_of(st, val, ty).t == 0)
            return
        if base == 'do_omaha_request':
            n = len([e for e in st.trace if e.kind == 'env' and e.name == 'do_omaha_request'])
            d = ex.discr_of(st, val, ty).t
            if mode == 'tail' and n == 1:
                st.pc.append(d == 0)            # the check's first attempt succeeds (attempt loop: C06)
            return
        if mode == 'tail' and (short in ('now_in_walltime',) or base == 'record_update_first_seen_time'):
            # wall clock well inside the representable range and not running backwards during one check
            from models import time_parts
            s_, n_ = time_parts(ex, st, val)
            st.pc.append(z3.And(s_ > -(1 << 40), s_ < (1 << 40)))
            prev = [e for e in st.trace[:-1] if e.kind == 'env' and (e.name.endswith('now_in_walltime') or e.name == 'record_update_first_seen_time')]
            if prev and short == 'now_in_walltime':
                pv = Tree({}, prev[-1].out, 'std::time::SystemTime')
                ps, pn = time_parts(ex, st, pv)
                st.pc.append(s_ * 1000000000 + n_ >= ps * 1000000000 + pn)
                if len(prev) >= 2:
                    pv0 = Tree({}, prev[0].out, 'std::time::SystemTime')
                    ps0, pn0 = time_parts(ex, st, pv0)
                    st.pc.append(s_ * 1000000000 + n_ >= ps0 * 1000000000 + pn0)
            return
        if short == 'now_in_monotonic' and mode in ('loop', 'tail'):
            # monotonic clock does not run backwards inside one check (arbitrary clocks: C14's exploration)
            from models import time_parts
            prev = [e for e in st.trace[:-1] if e.kind == 'env' and e.name.endswith('now_in_monotonic')]
            if prev:
                s_, n_ = time_parts(ex, st, val)
                ps, pn = time_parts(ex, st, Tree({}, prev[-1].out, 'std::time::Instant'))
                st.pc.append(s_ * 1000000000 + n_ >= ps * 1000000000 + pn)
            return
        if base == 'parse_json_response' and mode in ('loop', 'loop-anyclock'):
            st.pc.append(ex.discr_of(st, val, ty).t == 1)     # cut the tail short: unparseable body
            return
    return assume


def offered_count(ex, st, nresp):
    """number of response apps that this path has decided to be offered an update"""
    pe = [e for e in st.trace if e.kind == 'env' and e.name == 'parse_json_response']
    if not pe:
        return None
    res = Tree({}, pe[0].out, None)
    resp = payload(ex, st, res, 0, 0, 'protocol::response::Response')
    appsv = ex.child(st, resp, ex.src.field_index('protocol::response::Response', 'apps'), 'std::vec::Vec<protocol::response::App>')
    n = 0
    for j in range(nresp):
        ra = ex.child(st, appsv, j, 'protocol::response::App')
        uc = ex.child(st, ra, ex.src.field_index('protocol::response::App', 'update_check'), 'std::option::Option<protocol::response::UpdateCheck>')
        if dval(ex, st, ex.discr_of(st, uc).t) != 1:
            continue
        ucv = payload(ex, st, uc, 1, 0, 'protocol::response::UpdateCheck')
        sdt = ex.discr_of(st, ex.child(st, ucv, ex.src.field_index('protocol::response::UpdateCheck', 'status'), 'protocol::response::OmahaStatus')).t
        if dval(ex, st, sdt == 0) == 1:
            n += 1
    return n


def shape_fn(nresp, nres):
    def shape(origin, ty, st=None, ex=None):
        if origin.endswith('.v0.0.3') or 'response::App' in ty:
            return nresp
        if 'AppInstallResult' in ty or origin.endswith('!out.1'):
            if nres == 'contract' and st is not None:
                # contract-conforming installer: one result per offered app on this path
                n = offered_count(ex, st, nresp)
                return n if n is not None else 0
            return nres
        if 'Event' in ty:
            return 0
        raise Inconclusive('no shape for collection %s : %s' % (origin, ty))
    return shape


def explore_puc(chk, mode, napps=1, nresp=1, nres=1, cfg=None):
    c = dict(unroll=5, env_assume=mk_assume(mode), shape=shape_fn(nresp, nres), max_paths=60000)
    if cfg:
        c.update(cfg)
    cuts = ('persist', 'appset', 'do_omaha', 'check_interval') + (('first_seen',) if mode == 'tail' else ())
    ex = make_sm_executor(chk, c, cuts=cuts)
    fn = find_method(ex, 'StateMachine::perform_update_check')
    params = Tree({}, 'params', 'RequestParams')
    apps = mk_vec([Tree({}, 'app%d' % i, 'common::App') for i in range(napps)], 'Vec<common::App>')
    res = drive_async(ex, fn, [Ptr('sm'), params, apps, Ptr('co')])
    return ex, res


def omaha_events(st):
    return [(i, e) for i, e in enumerate(st.trace) if e.kind == 'env' and e.name == 'do_omaha_request']


def omaha_outcome(ex, st, e):
    """('Ok',) or ('Err', variant) of a do_omaha_request event on this path (None if undecided)"""
    res = Tree({}, e.out, None)
    d = dval(ex, st, ex.discr_of(st, res).t)
    if d == 0:
        return ('Ok',)
    if d == 1:
        er = payload(ex, st, res, 1, 0, 'state_machine::OmahaRequestError')
        ed = dval(ex, st, ex.discr_of(st, er).t)
        return ('Err', ERRS[ed] if ed is not None else None, er)
    return None


def builder_ops(e):
    return e.args[0]


def op_named(ops, name):
    return [o for o in ops if o[0] == name]


# ------------------------------------------------------------------ C06 + C02(b): the attempt loop

def monitor_attempt_loop(chk, tier):
    ex, res = explore_puc(chk, 'loop', napps=1)
    o_bound = chk.ob('at-most-three-attempts', 'one check sends at most three update-check requests (the loop is unrolled past three; reaching a fourth is the violation)')
    o_retry = chk.ob('retry-iff-transient', 'a further attempt happens iff the previous one failed with a non-caller transport error or a non-2xx status, fewer than three were made, and no server-dictated poll interval is in force; build, authentication errors end the check at once')
    o_back = chk.ob('backoff-window', 'before the k-th retry the timer is asked for 2^(k-1) s +/- 500 ms, for every value of the random draw, and the draw matters')
    o_metrics = chk.ob('attempt-metrics', 'RequestsPerCheck.count == attempts made, successful iff an attempt succeeded; one UpdateCheckResponseTime per attempt (monotone clock) with successful == that attempt\'s outcome')
    o_ids = chk.ob('session-and-request-ids', 'every attempt carries the check\'s one session id and a freshly generated request id; same payload')
    o_ann = chk.ob('loop-error-announced', 'a check whose attempts all failed announces ErrorCheckingForUpdate exactly once (after the last attempt, before the requests-per-check metric), never the server response, and returns Err(OmahaRequest(the last attempt\'s error class)); a successful attempt announces no error state before the body is looked at')
    o_c02 = chk.ob('no-retry-after-forgery', 'an attempt that failed authentication is followed by the response-time metric, ErrorCheckingForUpdate, RequestsPerCheck and Err(OmahaRequest(CupValidation)) - no wait, no second request')
    Ds = dict((o.name, Decide(chk, ex, o, cross=False)) for o in (o_bound, o_retry, o_back, o_metrics, o_ids, o_c02, o_ann))
    D = Ds['retry-iff-transient']
    spi_path = smodels.sm_field_path(ex, ['context', 'state', 'server_dictated_poll_interval'])
    nforged = 0
    samples = []
    maxatt = 0
    for st in res:
        if st.status == 'bound':
            Ds['at-most-three-attempts'].failed = ('violated', 'attempt loop ran past the bound: ' + str(st.info), None, st)
            continue
        if st.status != 'done':
            D.no_bad_status([st])
            continue
        evs = st.trace
        oms = omaha_events(st)
        # attempts = do_omaha events before the RequestsPerCheck metric
        rpc_i = None
        for i, e in enumerate(evs):
            if e.kind == 'env' and e.name.endswith('report_metrics') and decode_metric(ex, st, e)[0] == 'RequestsPerCheck':
                rpc_i = i
                break
        if rpc_i is None:
            Ds['attempt-metrics'].failed = ('violated', 'no RequestsPerCheck metric on path %s' % story(ex, st), None, st)
            continue
        attempts = [(i, e) for i, e in oms if i < rpc_i]
        maxatt = max(maxatt, len(attempts))
        if len(attempts) > 3:
            Ds['at-most-three-attempts'].failed = ('violated', '%d requests in one check: %s' % (len(attempts), story(ex, st)), None, st)
            continue
        if len(samples) < 6:
            samples.append(story(ex, st))
        # per attempt analysis
        session_ids = []
        request_ids = []
        for k, (i, e) in enumerate(attempts):
            oc = omaha_outcome(ex, st, e)
            if oc is None or (oc[0] == 'Err' and oc[1] is None):
                D.failed = D.failed or ('inconclusive', 'attempt outcome not decided by path', None, st)
                break
            nxt_i = attempts[k + 1][0] if k + 1 < len(attempts) else rpc_i
            between = evs[i + 1:nxt_i]
            waits = [x for x in between if x.kind == 'env' and x.name.endswith('Timer>::wait_for')]
            last = k + 1 == len(attempts)
            # state of the poll interval right after this attempt
            ops = builder_ops(e)
            sid = op_named(ops, 'session_id')
            rid = op_named(ops, 'request_id')
            session_ids.append(sid[-1][1] if sid else None)
            request_ids.append(rid[-1][1] if rid else None)
            # response time metric for this attempt
            rts = [x for x in between if x.kind == 'env' and x.name.endswith('report_metrics') and decode_metric(ex, st, x)[0] == 'UpdateCheckResponseTime']
            nows = [x for x in evs[:nxt_i] if x.kind == 'env' and x.name.endswith('now_in_monotonic')]
            if len(rts) != 1:
                # the monotonic clock does not run backwards within a check (assumed in this exploration; the wall
                # clock is free), so the duration of every attempt is computable and is reported exactly once
                Ds['attempt-metrics'].failed = Ds['attempt-metrics'].failed or ('violated', '%d response-time metrics for attempt %d (the wall clock may jump, the monotonic clock does not): %s' % (len(rts), k + 1, story(ex, st)), None, st)
            if rts:
                mv = decode_metric(ex, st, rts[0])[1]
                succ = payload(ex, st, mv, 0, 1, 'bool')
                Ds['attempt-metrics'].require(st, succ.t == z3.BoolVal(oc[0] == 'Ok'), 'UpdateCheckResponseTime.successful == attempt outcome')
                # the reported time is that of this attempt alone: from the last monotonic reading before its
                # request to the first one after it
                before_ = [x for x in evs[:i] if x.kind == 'env' and x.name.endswith('now_in_monotonic')]
                after_ = [x for x in between if x.kind == 'env' and x.name.endswith('now_in_monotonic')]
                if before_ and after_:
                    bs_, bn_ = time_parts(ex, st, Tree({}, before_[-1].out, 'std::time::Instant'))
                    as_, an_ = time_parts(ex, st, Tree({}, after_[0].out, 'std::time::Instant'))
                    rt = payload(ex, st, mv, 0, 0, 'std::time::Duration')
                    ds_, dn_ = dur_parts(ex, st, rt)
                    Ds['attempt-metrics'].require(st, ds_ * NANOS + dn_ == (as_ * NANOS + an_) - (bs_ * NANOS + bn_),
                                                  'UpdateCheckResponseTime of attempt %d == monotonic time spent in that attempt\'s exchange' % (k + 1))
                else:
                    Ds['attempt-metrics'].failed = Ds['attempt-metrics'].failed or ('violated', 'attempt %d is not bracketed by two monotonic clock readings: %s' % (k + 1, story(ex, st)), None, st)
            if oc[0] == 'Ok':
                if not last:
                    D.failed = D.failed or ('violated', 'another request after a successful attempt: %s' % story(ex, st), None, st)
                continue
            kind = oc[1]
            if kind in ('Json', 'HttpBuilder', 'CupDecoration', 'CupValidation'):
                if not last or waits:
                    Dx = Ds['no-retry-after-forgery'] if kind == 'CupValidation' else D
                    Dx.failed = Dx.failed or ('violated', 'attempt failed with %s but the check went on (%s)' % (kind, story(ex, st)), None, st)
                if kind == 'CupValidation':
                    nforged += 1
                    tail = story(ex, st)
                    r = st.result
                    uce = payload(ex, st, r, 1, 0, 'state_machine::UpdateCheckError')
                    ore = payload(ex, st, uce, 0, 0, 'state_machine::OmahaRequestError')
                    Ds['no-retry-after-forgery'].require(st, z3.And(ex.discr_of(st, r).t == 1, ex.discr_of(st, uce).t == 0,
                                                                      ex.discr_of(st, ore).t == ERRS.index('CupValidation')),
                                                         'result is Err(OmahaRequest(CupValidation))')
                    after = [s for s in tail[tail.index('do_omaha_request') + 1:] if s not in ('now_in_monotonic',)]
                    want = ['metric:UpdateCheckResponseTime', 'yield:StateChange(ErrorCheckingForUpdate)', 'metric:RequestsPerCheck']
                    if k == 0 and [s for s in after if not s.startswith('metric:UpdateCheckResponseTime')] != want[1:]:
                        Ds['no-retry-after-forgery'].failed = Ds['no-retry-after-forgery'].failed or (
                            'violated', 'after a forged response the check did %s' % after, None, st)
                continue
            # retryable classes: HttpTransport / HttpStatus
            # condition evaluated by the code: attempt number >= 3, is_user (transport), poll interval present
            # read the poll interval as left by this attempt (cut summary wrote it at event time)
            should_stop_terms = []
            att_no = k + 1
            if att_no >= 3:
                stop_must = True
            else:
                stop_must = None
            # poll interval after this attempt: the value stored by the summary = ite(noresp, old, new)
            # we recompute from the event: transport error -> unchanged; status -> fresh e.out + '.spi'
            if kind == 'HttpStatus':
                spi_v = Tree({}, e.out + '.spi', smodels.SPI_TY)
                spi_some = ex.discr_of(st, spi_v).t == 1
            else:
                # unchanged by this attempt: value before the attempt
                spi_some = spi_before(ex, st, attempts, k, spi_path)
            er = oc[2]
            if kind == 'HttpTransport':
                herr = payload(ex, st, er, ERRS.index('HttpTransport'), 0, 'http_request::Error')
                kfield = ex.child(st, herr, ex.src.field_index('http_request::Error', 'kind') if ex.src.fields_of('http_request::Error') else 0, 'http_request::ErrorKind')
                is_user = ex.discr_of(st, kfield).t == ex.src.variant_index('ErrorKind', 'User')
            else:
                is_user = z3.BoolVal(False)
            stop = z3.Or(z3.BoolVal(att_no >= 3), is_user, spi_some)
            if last:
                D.require(st, stop, 'the check gave up after attempt %d (%s) only because it was the third, a caller error, or a poll interval is in force' % (att_no, kind))
                if waits:
                    D.failed = D.failed or ('violated', 'waited after the final attempt', None, st)
            else:
                D.require(st, z3.Not(stop), 'a retry after attempt %d (%s) happens only when allowed' % (att_no, kind))
                if len(waits) != 1:
                    Ds['backoff-window'].failed = Ds['backoff-window'].failed or ('violated', '%d waits before retry %d (%s)' % (len(waits), att_no, story(ex, st)), None, st)
                else:
                    dur = waits[0].args[1]
                    s_, n_ = dur_parts(ex, st, dur)
                    ms = s_ * 1000 + ex.idiv(n_, 1000000)
                    base = (1 << (att_no - 1)) * 1000
                    Ds['backoff-window'].require(st, z3.And(n_ - ex.idiv(n_, 1000000) * 1000000 == 0, ms >= base - 500, ms < base + 500),
                                                 'wait before retry %d in [%d, %d) ms' % (att_no, base - 500, base + 500))
                    # the draw matters: two different waits are possible on this path
                    rnd = [x for x in between if x.kind == 'env' and x.name == 'rand::random']
                    if len(rnd) != 1:
                        Ds['backoff-window'].failed = Ds['backoff-window'].failed or ('violated', 'back-off not drawn from one fresh random number', None, st)
                    else:
                        if not (may_two_values(ex, st, ms)):
                            Ds['backoff-window'].failed = Ds['backoff-window'].failed or ('violated', 'back-off is not randomised', None, st)
        # ids
        if len(attempts) >= 1:
            if any(s is None for s in session_ids) or any(r is None for r in request_ids):
                Ds['session-and-request-ids'].failed = Ds['session-and-request-ids'].failed or ('violated', 'attempt without session/request id', None, st)
            else:
                for s_ in session_ids[1:]:
                    if not ex.veq(s_, session_ids[0]):
                        Ds['session-and-request-ids'].failed = Ds['session-and-request-ids'].failed or ('violated', 'session id changed between attempts', None, st)
                origins = [getattr(r, 'origin', None) for r in request_ids]
                guid_events = [x.out for x in evs if x.kind == 'env' and x.name == 'GUID::new']
                if len(set(origins)) != len(origins) or any(o_ not in guid_events for o_ in origins):
                    Ds['session-and-request-ids'].failed = Ds['session-and-request-ids'].failed or ('violated', 'request ids are not fresh per attempt: %s' % origins, None, st)
                if getattr(session_ids[0], 'origin', None) in origins:
                    Ds['session-and-request-ids'].failed = Ds['session-and-request-ids'].failed or ('violated', 'session id reused as request id', None, st)
                # same payload: builder ops other than request_id identical
                p0 = [o for o in builder_ops(attempts[0][1]) if o[0] != 'request_id']
                for _, e in attempts[1:]:
                    if not ex.veq(tuple(p0), tuple(o for o in builder_ops(e) if o[0] != 'request_id')):
                        Ds['session-and-request-ids'].failed = Ds['session-and-request-ids'].failed or ('violated', 'payload differs between attempts', None, st)
        # announcements of the attempt loop
        DA = Ds['loop-error-announced']
        ys = [(i, decode_yield(ex, st, e)) for i, e in enumerate(evs) if e.kind == 'yield']
        ynames = [y[0] + ('(%s)' % y[1] if y[1] else '') for _, y in ys]
        before_rpc = [y[0] + ('(%s)' % y[1] if y[1] else '') for i, y in ys if i < rpc_i]
        last_oc_ = omaha_outcome(ex, st, attempts[-1][1]) if attempts else None
        if last_oc_ is not None and last_oc_[0] == 'Err':
            if before_rpc != ['StateChange(CheckingForUpdates)', 'StateChange(ErrorCheckingForUpdate)'] or 'OmahaServerResponse' in ynames \
                    or ynames.count('StateChange(ErrorCheckingForUpdate)') != 1:
                DA.failed = DA.failed or ('violated', 'after a failed attempt loop (last error %s) the announcements are %s' % (last_oc_[1], ynames), None, st)
            else:
                i_err = [i for i, y in ys if y[0] == 'StateChange' and y[1] == 'ErrorCheckingForUpdate'][0]
                if i_err < attempts[-1][0]:
                    DA.failed = DA.failed or ('violated', 'ErrorCheckingForUpdate announced before the last attempt', None, st)
                r_ = st.result
                uce_ = payload(ex, st, r_, 1, 0, 'state_machine::UpdateCheckError')
                ore_ = payload(ex, st, uce_, 0, 0, 'state_machine::OmahaRequestError')
                DA.require(st, z3.And(ex.discr_of(st, r_).t == 1, ex.discr_of(st, uce_).t == 0, ex.discr_of(st, ore_).t == ERRS.index(last_oc_[1])),
                           'result is Err(OmahaRequest(%s))' % last_oc_[1])
        elif last_oc_ is not None:
            if before_rpc != ['StateChange(CheckingForUpdates)']:
                DA.failed = DA.failed or ('violated', 'a successful attempt loop announced %s before the body was looked at' % before_rpc, None, st)
        # RequestsPerCheck
        mv = decode_metric(ex, st, evs[rpc_i])[1]
        cnt = payload(ex, st, mv, ex.src.variant_index('Metrics', 'RequestsPerCheck'), 0, 'u64')
        succ = payload(ex, st, mv, ex.src.variant_index('Metrics', 'RequestsPerCheck'), 1, 'bool')
        last_oc = omaha_outcome(ex, st, attempts[-1][1]) if attempts else None
        Ds['attempt-metrics'].require(st, z3.And(cnt.t == len(attempts), succ.t == z3.BoolVal(bool(last_oc and last_oc[0] == 'Ok'))),
                                      'RequestsPerCheck == (attempts, success)')
    chk.samples.append({'attempt_loop_paths': samples})
    chk.extra['max_attempts_seen'] = maxatt
    if maxatt != 3 or nforged == 0:
        D.failed = D.failed or ('inconclusive', 'vacuous: max attempts %d, forged paths %d' % (maxatt, nforged), None, None)
    out = {}
    import conform
    ok, badc = conform.validate_sample(chk, ex, res, 1, k=16, label='attempt-loop')
    for name, d in Ds.items():
        f = d.done()
        if f and f[0] == 'violated':
            d.ob.key = name
            st = f[3]
            d.ob.cex = {'path': story(ex, st) if st is not None else None}
            conform.confirm(chk, d, ex, 1)
        out[name] = d
    if badc and not any(d.failed for d in Ds.values()):
        D.ob.status = 'inconclusive'
        D.ob.detail = 'engine/real-code disagreement on a replayed path: %s' % badc[0]['detail']
    chk.absorb(ex)
    return out


def spi_before(ex, st, attempts, k, spi_path):
    """z3 Bool: a server-dictated poll interval is in force after attempt k, given that attempt k itself
    did not bring a response (so it is what earlier attempts / the initial context left)"""
    for j in range(k - 1, -1, -1):
        oc = omaha_outcome(ex, st, attempts[j][1])
        if oc and (oc[0] == 'Ok' or oc[1] == 'HttpStatus'):
            return ex.discr_of(st, Tree({}, attempts[j][1].out + '.spi', smodels.SPI_TY)).t == 1
    init = ex.load(State(), 'sm', [(p, None) for p in spi_path[:-1]] + [(spi_path[-1], smodels.SPI_TY)])
    return ex.discr_of(st, init).t == 1


def may_two_values(ex, st, term):
    r, m = ex.solve(st, [])
    if r != 'sat':
        return False
    v = m.eval(term, model_completion=True)
    return ex.check(st, [term != v]) == 'sat'
