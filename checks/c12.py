#!/usr/bin/env python3
"""C12 — Scheduled checks wait for the policy's time and minimum wait."""
import sys, os
sys.path.insert(0, os.path.dirname(os.path.abspath(__file__)))
from smbase import *
import runmon


def run(chk):
    if not chk.parallel(os.path.abspath(__file__), runmon.parts(chk.tier), post_merge=runmon.post_merge):
        runmon.monitor_run(chk, chk.tier)
    keep = ('timers-follow-policy', 'run-explored')
    chk.obligations = [o for o in chk.obligations if o.name in keep or o.name.startswith('part:')]
    chk.bounds.update({'run loop iterations': 2, 'pending polls per timer': 1, 'timer firing orders': 'all subsets/orders of the two timers within the poll bound'})
    chk.assumptions += [
        'the real future::join / Fuse / select! code of the crate is executed; Timer futures are environment futures that may be pending; MaybeDone semantics of join (a finished side is not polled again) is the model of futures::future::join',
    ]


if __name__ == '__main__':
    chk = Check('C12')
    try:
        run(chk)
    except Exception as e:          # nothing the engine cannot digest may look like a verdict: exit 2
        import traceback
        o = chk.ob('engine', 'executor could not interpret the code')
        o.status = 'inconclusive'
        o.detail = ('%s: %s' % (type(e).__name__, e)) if not isinstance(e, Inconclusive) else str(e)
        if not isinstance(e, Inconclusive):
            o.detail += ' | ' + ' <- '.join(l.strip() for l in traceback.format_exc().strip().split('\n')[-7:-1:2])
    sys.exit(chk.finish())
