#!/usr/bin/env python3
"""C04 — Update-check flow: announced states and result match what happened."""
import sys, os
sys.path.insert(0, os.path.dirname(os.path.abspath(__file__)))
from smbase import *
import tailmon, callers

# (apps in the app set, apps in the response, installer results); 'contract' = one result per offered app
SHAPES = {'quick': [(1, 1, 'contract'), (2, 1, 'contract'), (1, 2, 'contract')],
          'thorough': [(1, 1, 'contract'), (2, 1, 'contract'), (1, 2, 'contract'), (2, 2, 'contract'), (2, 3, 'contract'), (1, 2, 1), (1, 1, 2)]}
KEEP = ('announced-states', 'check-result', 'check-body-frame')


def parts(chk, pid):
    ps = ['tail:%d' % i for i in range(len(SHAPES[chk.tier]))]
    if pid == 'C04':
        import runmon
        ps += runmon.parts(chk.tier) + ['loop', 'align3']
    else:
        ps += ['report']
    return ps


def run(chk, keep=KEEP, pid='C04', script=None):
    import runmon
    if pid == 'C04':
        keep = tuple(keep) + ('idle-and-waiting-for-reboot', 'loop-error-announced', 'result-alignment-three-offers', 'run-explored')
    else:
        keep = tuple(keep) + ('report-once', 'report-events-per-app')
    if not (script and chk.parallel(script, parts(chk, pid), post_merge=runmon.post_merge if pid == 'C04' else None)):
        if chk.want('tail'):
            shapes = SHAPES[chk.tier]
            if (chk.part or '').startswith('tail:'):
                shapes = [shapes[int(chk.part.split(':')[1])]]
            tailmon.monitor_tail(chk, shapes)
        if pid == 'C04':
            if chk.want('run'):
                runmon.monitor_run(chk, chk.tier)
            if chk.want('loop'):
                callers.monitor_attempt_loop(chk, chk.tier)
            if chk.want('align3'):
                tailmon.monitor_alignment3(chk)
        elif chk.want('report'):
            import sutmon
            sutmon.monitor_report(chk, 2)
    chk.obligations = [o for o in chk.obligations if o.name in keep or o.name.startswith('part:')]
    chk.bounds.update({'(apps in app set, apps in response, installer results)': [list(s) for s in SHAPES[chk.tier]],
                       'install progress notifications': 0, 'attempts': 'first attempt succeeds (the attempt loop is C06)'})
    chk.assumptions += [a for a in TAIL_ASSUMPTIONS if a not in chk.assumptions]


TAIL_ASSUMPTIONS = [
    'exchange function replaced by its contract (C02/C07); RequestBuilder as an operation log (C15); Context::persist, AppSetExt::*, report_check_interval, record_update_first_seen_time as events (C08/C09/C14/C18 explore their bodies)',
    'parse_json_response returns an arbitrary Result<Response> with the stated number of apps (ids, statuses, manifest versions symbolic, so known/unknown ids and every status occur)',
    'installer contract: one result per offered app (paths violating it are skipped and counted); wall clock within +-2^40 s and not going backwards inside one check; storage writes and metrics succeed; logging off',
    'environment futures are ready when polled (delivery of events to a slow observer is C13, not claimed)',
]


if __name__ == '__main__':
    chk = Check('C04')
    try:
        run(chk, script=os.path.abspath(__file__))
    except Exception as e:          # nothing the engine cannot digest may look like a verdict: exit 2
        import traceback
        o = chk.ob('engine', 'executor could not interpret the code')
        o.status = 'inconclusive'
        o.detail = ('%s: %s' % (type(e).__name__, e)) if not isinstance(e, Inconclusive) else str(e)
        if not isinstance(e, Inconclusive):
            o.detail += ' | ' + ' <- '.join(l.strip() for l in traceback.format_exc().strip().split('\n')[-7:-1:2])
    sys.exit(chk.finish())
