#!/usr/bin/env python3
"""C08 — Protocol bookkeeping is exact, durable and crash-consistent."""
import sys, os
sys.path.insert(0, os.path.dirname(os.path.abspath(__file__)))
from smbase import *
import sutmon, c07


def run(chk):
    sutmon.monitor_start_update_check(chk, (1, 2) if chk.tier == 'quick' else (0, 1, 2, 3))
    chk.obligations = [o for o in chk.obligations if o.name != 'forged-check-counts-as-failure']
    sutmon.monitor_ping(chk, 1, 1)
    sutmon.monitor_ping(chk, 1, 0)      # a successful ping whose answer names no app still resets the counter
    if chk.tier == 'thorough':
        sutmon.monitor_ping(chk, 2, 2)
    c07.persist_load(chk)
    context_keys_only_in_persist(chk)
    # the exchange function persists the context in the middle of a check (when the poll interval changes): it
    # must not have touched the rest of it
    import domaha
    E = domaha.explore(chk, 4)
    o4 = chk.ob('exchange-frame', 'of the in-memory context the exchange changes the poll interval only: the failure counter and the last-contact time are untouched on every path (so the context it persists when the interval changes carries the bookkeeping of the last completed check)')
    D4 = Decide(chk, E.ex, o4, cross=False)
    domaha.monitor_frame(E, D4)
    f4 = D4.done()
    if f4 and f4[0] == 'violated':
        o4.key = o4.name
    chk.absorb(E.ex)
    chk.bounds.update({'history': 'one check / one ping from an arbitrary in-memory context (inductive step: counter, times, interval symbolic at full width)',
                       'apps in result': '0..3'})
    chk.assumptions += [
        'perform_update_check replaced by its contract (arbitrary result; of the context it changes only the poll interval and last_update_check_time) - established by C04/C06/C07 explorations of its body',
        'Storage contract: writes are cached until commit, commit is atomic; so the surviving storage after a crash is the last completed commit. The check shows that the three context keys are written only by Context::persist from one in-memory context and that every flow ends with persist+commit; with load(persist(c)) == c at microsecond precision (persist-encoding, load-decoding, C19) the crash instant is irrelevant',
        'AppSetExt::{persist,update_from_omaha} are events here (C09 explores them); logging off; environment futures ready when polled',
    ]


def context_keys_only_in_persist(chk):
    """no storage write to a context key outside Context::persist in the flows that run between commits"""
    import callers
    o = chk.ob('context-keys-written-only-by-persist', 'in the check, ping, report and exchange flows no storage write touches last_update_time / server_dictated_poll_interval / consecutive_failed_update_checks except Context::persist, so a commit can never expose a mixture of two contexts')
    keys = ['last_update_time', 'server_dictated_poll_interval', 'consecutive_failed_update_checks']
    ex, res = callers.explore_puc(chk, 'tail', 1, 1, 1)
    D = Decide(chk, ex, o, cross=False)
    o2 = chk.ob('check-body-frame', 'perform_update_check itself never touches the failure counter or the last-contact time (its caller assigns them once, after the outcome is known): whatever is persisted in the middle of a check - a changed poll interval is - carries the bookkeeping of the last completed check, never a mixture')
    D2 = Decide(chk, ex, o2, cross=False)
    c0_, l0_ = sutmon.ctx_terms(ex, State())
    n = 0
    for st in res:
        if st.status != 'done':
            D.no_bad_status([st])
            continue
        c1_, l1_ = sutmon.ctx_terms(ex, st)
        D2.require(st, z3.And(c1_.t == c0_.t, sutmon.opt_pct_eq(ex, st, l1_, l0_)), 'failure counter and last-contact time untouched by the body of the check')
        for e in st.trace:
            if e.kind == 'env' and 'Storage>::' in e.name and e.name.split('::')[-1] in ('set_int', 'set_string', 'set_bool', 'remove'):
                n += 1
                k = e.args[1]
                D.require(st, z3.And(*[k.t != z3.StringVal(x) for x in keys]), 'storage write outside persist does not touch a context key')
    D.extra = {'storage_writes_seen': n}
    if n == 0:
        D.failed = D.failed or ('inconclusive', 'vacuous', None, None)
    f = D.done()
    if f and f[0] == 'violated':
        o.key = o.name
    f2 = D2.done()
    if f2 and f2[0] == 'violated':
        o2.key = o2.name
    chk.absorb(ex)


if __name__ == '__main__':
    chk = Check('C08')
    try:
        run(chk)
    except Exception as e:          # nothing the engine cannot digest may look like a verdict: exit 2
        import traceback
        o = chk.ob('engine', 'executor could not interpret the code')
        o.status = 'inconclusive'
        o.detail = ('%s: %s' % (type(e).__name__, e)) if not isinstance(e, Inconclusive) else str(e)
        if not isinstance(e, Inconclusive):
            o.detail += ' | ' + ' <- '.join(l.strip() for l in traceback.format_exc().strip().split('\n')[-7:-1:2])
    sys.exit(chk.finish())
