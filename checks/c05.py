#!/usr/bin/env python3
"""C05 — Policy consent gates every network, install and reboot action."""
import sys, os
sys.path.insert(0, os.path.dirname(os.path.abspath(__file__)))
from smbase import *
import runmon, tailmon, c04, sutmon
from smodels import as_str


def app_valid(chk):
    o = chk.ob('app-validity', 'App::valid() is true exactly when the id is non-empty and the version is not 0.0.0.0 (all ids, all u32^4 versions); all_valid is the conjunction over the app set')
    ex = make_sm_executor(chk, dict(unroll=6, shape=lambda o_, t: 2), cuts=())
    D = Decide(chk, ex, o)
    fn = find_method(ex, 'App::valid')
    st0 = State()
    app = Tree({}, 'app', 'common::App')
    st0.cells['app'] = app
    res = ex.run_fn(fn, [Ptr('app')], st0)
    D.no_bad_status(res)
    ident = as_str(ex, st0, ex.child(st0, app, tailmon.fidx(ex, 'common::App', 'id'), 'String'))
    ver = ex.child(st0, app, tailmon.fidx(ex, 'common::App', 'version'), 'version::Version')
    comps = [ex.child(st0, ex.child(st0, ver, 0, '[u32; 4]'), i, 'u32').t for i in range(4)]
    spec = z3.And(z3.Length(ident.t) > 0, z3.Or(*[c != 0 for c in comps]))
    for st in res:
        if st.status == 'done':
            D.require(st, st.result.t == spec, 'valid() == (id non-empty and version != 0.0.0.0)')
    f = D.done()
    if f and f[0] == 'violated':
        o.key = o.name
        if f[2] is not None:
            o.cex = dict((str(d), str(f[2][d])) for d in f[2].decls())
    chk.absorb(ex)


def tail_shapes(chk):
    return [c04.SHAPES[chk.tier][0], c04.SHAPES[chk.tier][2]] if chk.tier == 'quick' else c04.SHAPES[chk.tier]


def run(chk):
    shapes = tail_shapes(chk)
    parts = ['valid'] + runmon.parts(chk.tier) + ['tail:%d' % i for i in range(len(shapes))] + ['ping', 'builder']
    if not chk.parallel(os.path.abspath(__file__), parts, post_merge=runmon.post_merge):
        if chk.want('valid'):
            app_valid(chk)
        if chk.want('run'):
            runmon.monitor_run(chk, chk.tier)
        if chk.want('tail'):
            tailmon.monitor_tail(chk, [shapes[int(chk.part.split(':')[1])]] if (chk.part or '').startswith('tail:') else shapes)
        if chk.want('ping'):
            sutmon.monitor_ping(chk, 1, 1)
        if chk.want('builder'):
            # the guarantee side of "every request carries exactly the policy's parameters": what the real
            # RequestBuilder puts on the wire for the parameters it was constructed with
            import c15
            c15.builder_logic(chk, 2, 1, name='builder-uses-given-params')
    keep = ('app-validity', 'invalid-apps-never-start', 'check-needs-consent', 'reboot-needs-consent', 'install-gated', 'ping-bookkeeping', 'run-explored', 'builder-uses-given-params')
    chk.obligations = [o for o in chk.obligations if o.name in keep or o.name.startswith('part:')]
    chk.bounds.update({'run loop iterations': 2, 'control requests': '1 (quick) / 2 (thorough)', 'pending polls per future': 1,
                       'tail shapes (apps, response apps, results)': [list(s) for s in tail_shapes(chk)]})
    chk.assumptions += [a for a in c04.TAIL_ASSUMPTIONS if a not in chk.assumptions] + [
        'run / wait_for_reboot are executed with the real select! expansions; start_update_check and ping_omaha are events there (their bodies: C04/C06/C08); timers and the control channel may be pending once per future; select! arm order is explored (both permutations)',
        'the request parameters of every request of a check equal the policy\'s answer: run passes the answer to start_update_check (here), which passes it to perform_update_check (C08 exploration), whose builders all use it (install-gated obligation)',
    ]


if __name__ == '__main__':
    chk = Check('C05')
    try:
        run(chk)
    except Exception as e:          # nothing the engine cannot digest may look like a verdict: exit 2
        import traceback
        o = chk.ob('engine', 'executor could not interpret the code')
        o.status = 'inconclusive'
        o.detail = ('%s: %s' % (type(e).__name__, e)) if not isinstance(e, Inconclusive) else str(e)
        if not isinstance(e, Inconclusive):
            o.detail += ' | ' + ' <- '.join(l.strip() for l in traceback.format_exc().strip().split('\n')[-7:-1:2])
    sys.exit(chk.finish())
