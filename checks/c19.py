#!/usr/bin/env python3
"""C19 — Times survive persistence and compare consistently.

Engine M (mirsym) in path mode over the real MIR of the time-conversion functions; all integers at
full width (Int encoding, div/mod by constants through the division lemma), decided by z3 (python API)
and re-decided by cvc5 and z3 4.8 from SMT-LIB2 text.  Counterexamples are replayed natively.
"""
import sys, os
sys.path.insert(0, os.path.dirname(os.path.abspath(__file__)))
from base import *
from models import (time_parts, dur_parts, mk_time, mk_dur, payload, NANOS, I, some, none, deref_all)

I64_MIN, I64_MAX = -(1 << 63), (1 << 63) - 1


# ---- python reference (concrete), used on replayed values
def spec_to_micros(sec, nsec):
    total = sec * NANOS + nsec
    us = total // 1000 if total >= 0 else -((-total) // 1000)
    return us if I64_MIN <= us <= I64_MAX else None


def spec_from_micros(m):
    return divmod(m * 1000, NANOS)


def sym_time(ex, name, ty='SystemTime'):
    t = Tree({}, name, ty)
    return t


def opt_is(ex, st, v, some_pred, ty='i64'):
    """z3: v is Some(x) with some_pred(x) / v is None if some_pred is None"""
    d = ex.discr_of(st, v)
    if some_pred is None:
        return d.t == 0
    return z3.And(d.t == 1, some_pred(payload(ex, st, v, 1, 0, ty)))


def time_eq(ex, st, v, sec, nsec):
    s, n = time_parts(ex, st, v)
    return z3.And(s == sec, n == nsec)


def run(chk):
    ex = make_executor(chk)
    bin_dev = common.build_replay('dev')
    bin_rel = common.build_replay('release') if chk.tier == 'thorough' else None
    to_micros = find_fn(ex, 'checked_system_time_to_micros_from_epoch')
    from_micros = find_fn(ex, 'micros_from_epoch_to_system_time')
    truncate = find_method(ex, 'ComplexTime::truncate_submicrosecond_walltime')

    def native(req):
        r = common.run_replay(bin_dev, req)
        if bin_rel:
            r2 = common.run_replay(bin_rel, req)
            r2.pop('_rc', None)
            r['_release'] = r2
        return r

    # ---------------------------------------------------------------- O1 round trip
    o = chk.ob('micros-roundtrip', 'for all i64 m: to_micros(from_micros(m)) == Some(m), no panic')
    d = Decide(chk, ex, o)
    m = ex.sym_int('m', 'i64')
    res = ex.run_fn(from_micros, [m])
    d.no_bad_status(res)
    finals = []
    for st in res:
        if st.status != 'done':
            continue
        st.status = 'running'
        mid = st.result
        res2 = ex.run_fn(to_micros, [mid], st)
        d.no_bad_status(res2)
        for s2 in res2:
            if s2.status == 'done':
                finals.append(s2)
                d.require(s2, opt_is(ex, s2, s2.result, lambda x: x.t == m.t), 'to_micros(from_micros(m)) == Some(m)')
    f = d.done()
    if f and f[0] == 'violated':
        mv = mval(f[2], m.t)
        rep = native({'kernel': 'time.micros_roundtrip', 'm': str(mv)})
        o.cex = {'m': mv}
        o.replayed = rep
        if rep.get('back') != mv or 'panic' in rep:
            o.key = 'roundtrip@i64::MIN' if mv == I64_MIN else 'roundtrip@m=%d' % mv
            o.detail = 'm=%d: real code returns %r' % (mv, rep.get('back', rep.get('panic')))
        else:
            o.status = 'inconclusive'
            o.detail = 'model m=%d did not reproduce natively (%r)' % (mv, rep)
    chk.samples.append({'obligation': o.name, 'paths': [[str(z3.simplify(c))[:120] for c in s.pc][:4] for s in finals[:4]]})

    # ---------------------------------------------------------------- O2 to_micros == spec
    o = chk.ob('to-micros-spec', 'for all (sec:i64, nsec<1e9): result == Some(trunc toward epoch of micros) iff it fits i64, else None; no panic')
    d = Decide(chk, ex, o)
    t = sym_time(ex, 't')
    sec, nsec = time_parts(ex, State(), t)
    res = ex.run_fn(to_micros, [t])
    d.no_bad_status(res)
    total = sec * NANOS + nsec
    qpos = ex.idiv(total, 1000)
    qneg = ex.idiv(-total, 1000)
    us = z3.If(total >= 0, qpos, -qneg)
    fits = z3.And(us >= I64_MIN, us <= I64_MAX)
    for st in res:
        if st.status != 'done':
            continue
        r = st.result
        dd = ex.discr_of(st, r)
        pv = payload(ex, st, r, 1, 0, 'i64')
        prop = z3.If(fits, z3.And(dd.t == 1, pv.t == us), dd.t == 0)
        d.require(st, prop, 'to_micros(sec,nsec) == spec')
    f = d.done()
    if f and f[0] == 'violated':
        sv, nv = mval(f[2], sec), mval(f[2], nsec)
        rep = native({'kernel': 'time.to_micros', 'sec': str(sv), 'nsec': nv})
        o.cex = {'sec': sv, 'nsec': nv, 'spec': spec_to_micros(sv, nv)}
        o.replayed = rep
        if rep.get('micros', 'x') != spec_to_micros(sv, nv) or 'panic' in rep:
            o.key = 'to_micros@micros=i64::MIN' if spec_to_micros(sv, nv) == I64_MIN else 'to_micros@%d,%d' % (sv, nv)
            o.detail = '(sec,nsec)=(%d,%d): real code returns %r, spec %r' % (sv, nv, rep.get('micros', rep.get('panic')), spec_to_micros(sv, nv))
        else:
            o.status = 'inconclusive'
            o.detail = 'model did not reproduce natively: %r' % rep

    # ---------------------------------------------------------------- O3 from_micros == spec, no panic
    o = chk.ob('from-micros-spec', 'for all i64 m: from_micros(m) == EPOCH + m microseconds exactly, no panic')
    d = Decide(chk, ex, o)
    m = ex.sym_int('m3', 'i64')
    res = ex.run_fn(from_micros, [m])
    d.no_bad_status(res)
    q, r = ex.divmod_const(m.t * 1000, NANOS)
    for st in res:
        if st.status == 'done':
            d.require(st, time_eq(ex, st, st.result, q, r), 'from_micros(m) == (floor(m*1000/1e9), m*1000 mod 1e9)')
    f = d.done()
    if f and f[0] == 'violated':
        mv = mval(f[2], m.t)
        rep = native({'kernel': 'time.micros_roundtrip', 'm': str(mv)})
        o.cex = {'m': mv}
        o.replayed = rep
        if 'panic' in rep or (rep.get('sec'), rep.get('nsec')) != spec_from_micros(mv):
            o.key = 'from_micros@%d' % mv
        else:
            o.status = 'inconclusive'
            o.detail = 'model did not reproduce natively: %r' % rep

    # ---------------------------------------------------------------- O4 truncate helper
    o = chk.ob('truncate-agrees-with-storage', 'for all wall (sec,nsec) and mono: truncate(t).wall == from_micros(to_micros(t.wall)) when that is Some; mono unchanged; no panic')
    d = Decide(chk, ex, o)
    ct = Tree({}, 'ct', 'ComplexTime')
    st0 = State()
    st0.cells['ctcell'] = ct
    wall = ex.child(st0, ct, 0, 'std::time::SystemTime')
    mono = ex.child(st0, ct, 1, 'std::time::Instant')
    wsec, wnsec = time_parts(ex, st0, wall)
    msec, mnsec = time_parts(ex, st0, mono)
    total = wsec * NANOS + wnsec
    us = z3.If(total >= 0, ex.idiv(total, 1000), -ex.idiv(-total, 1000))
    fits = z3.And(us >= I64_MIN, us <= I64_MAX)
    eq, er = ex.divmod_const(us * 1000, NANOS)
    res = ex.run_fn(truncate, [Ptr('ctcell')], st0)
    # a panic is a violation only where storage precision is defined (micros fit i64)
    outs = []
    for st in res:
        if st.status == 'panic':
            r_, m_ = ex.solve(st, [fits])
            if r_ == 'sat':
                d.failed = d.failed or ('violated', 'panic reachable: ' + str(st.info), m_, st)
            elif r_ == 'unknown':
                d.failed = d.failed or ('inconclusive', 'unknown', None, st)
        elif st.status == 'done':
            outs.append(st)
            w2 = ex.child(st, st.result, 0, 'std::time::SystemTime')
            m2 = ex.child(st, st.result, 1, 'std::time::Instant')
            d.require(st, z3.Implies(fits, z3.And(time_eq(ex, st, w2, eq, er), time_eq(ex, st, m2, msec, mnsec))),
                      'truncate(t).wall == from_micros(to_micros(t.wall)) and mono unchanged')
        else:
            d.no_bad_status([st])
    f = d.done()

    def replay_trunc(o, f, keyname):
        sv, nv = mval(f[2], wsec), mval(f[2], wnsec)
        rep = native({'kernel': 'time.truncate', 'sec': str(sv), 'nsec': nv})
        o.cex = {'sec': sv, 'nsec': nv}
        o.replayed = rep
        bad = 'panic' in rep or rep.get('once') != rep.get('stored') or rep.get('twice') != rep.get('once')
        if keyname == 'idem':
            bad = 'panic' in rep or rep.get('twice') != rep.get('once')
        if bad:
            o.key = 'truncate-%s@pre-epoch' % keyname if sv < 0 else 'truncate-%s@%d,%d' % (keyname, sv, nv)
            o.detail = 'wall=(%d s,%d ns): truncate once=%r twice=%r, storage round trip=%r' % (
                sv, nv, rep.get('once', rep.get('panic')), rep.get('twice'), rep.get('stored'))
        else:
            o.status = 'inconclusive'
            o.detail = 'model did not reproduce natively: %r' % rep
    if f and f[0] == 'violated':
        replay_trunc(o, f, 'storage')

    o = chk.ob('truncate-idempotent', 'for all wall: truncate(truncate(t)) == truncate(t)')
    d = Decide(chk, ex, o)
    for st in outs:
        st.status = 'running'
        st.cells['ct2'] = st.result
        first = st.result
        res2 = ex.run_fn(truncate, [Ptr('ct2')], st)
        for s2 in res2:
            if s2.status == 'panic':
                r_, m_ = ex.solve(s2, [fits])
                if r_ == 'sat':
                    d.failed = d.failed or ('violated', 'panic reachable on second truncation: ' + str(s2.info), m_, s2)
            elif s2.status == 'done':
                a = ex.child(s2, first, 0, 'std::time::SystemTime')
                b = ex.child(s2, s2.result, 0, 'std::time::SystemTime')
                asec, ansec = time_parts(ex, s2, a)
                d.require(s2, z3.Implies(fits, time_eq(ex, s2, b, asec, ansec)), 'truncate twice == truncate once')
            else:
                d.no_bad_status([s2])
    f = d.done()
    if f and f[0] == 'violated':
        replay_trunc(o, f, 'idem')

    algebra(chk, ex, native)
    storage_ext(chk, ex)
    chk.absorb(ex)
    chk.bounds.update({'integers': 'full width (i64 seconds, u32 nanoseconds < 1e9, u64/u128 durations)',
                       'paths': 'all paths of the encoded functions (loop free)'})
    chk.assumptions += [
        'std::time::{SystemTime,Instant} are (sec: i64, nsec: u32 < 1e9) as std::sys::pal::unix::time::Timespec; models of '
        'duration_since / checked_add / checked_sub / Add / Sub / Duration::{from_*,as_*} follow the std documentation '
        '(validated differentially against native std by validate_models)',
        'z3 Int encoding with explicit wrap; x/k and x%k for constant k encoded by the division lemma (fresh q,r)',
        'impl Into<SystemTime> / impl Into<PartialComplexTime> parameters instantiated with the identity conversion',
    ]


def algebra(chk, ex, native):
    """two-clock algebra: destructure / complete_with / checked_to_* / From / Add / Sub / is_after_or_eq_any"""
    T_ST, T_IN = 'std::time::SystemTime', 'std::time::Instant'

    def sym_pct(name):
        return Tree({}, name, 'time::PartialComplexTime')

    def pct_parts(st, p):
        """(discr term, wall value or None per variant ...) -> dict of component accessors"""
        dd = ex.discr_of(st, p).t
        w0 = payload(ex, st, p, 0, 0, T_ST)
        m1 = payload(ex, st, p, 1, 0, T_IN)
        c2 = payload(ex, st, p, 2, 0, 'time::ComplexTime')
        cw = ex.child(st, c2, 0, T_ST)
        cm = ex.child(st, c2, 1, T_IN)
        return dd, w0, m1, cw, cm

    def tp(st, v):
        return time_parts(ex, st, v)

    def teq(st, a, b):
        s1, n1 = tp(st, a)
        s2, n2 = tp(st, b)
        return z3.And(s1 == s2, n1 == n2)

    def opt_time(st, v, present, ref):
        """v: Option<time>; present: z3 Bool; ref: time value"""
        dd = ex.discr_of(st, v).t
        pv = payload(ex, st, v, 1, 0, T_ST)
        return z3.If(present, z3.And(dd == 1, teq(st, pv, ref)), dd == 0)

    # destructure
    o = chk.ob('destructure', 'PartialComplexTime::destructure returns exactly the components present')
    d = Decide(chk, ex, o, cross=False)
    st0 = State()
    p = sym_pct('p')
    st0.cells['p'] = p
    fn = find_method(ex, 'PartialComplexTime::destructure')
    res = ex.run_fn(fn, [Ptr('p')], st0)
    d.no_bad_status(res)
    for st in res:
        if st.status != 'done':
            continue
        dd, w0, m1, cw, cm = pct_parts(st, p)
        r0 = ex.child(st, st.result, 0, None)
        r1 = ex.child(st, st.result, 1, None)
        wall_ref_ok = z3.If(dd == 0, opt_time(st, r0, z3.BoolVal(True), w0),
                            z3.If(dd == 2, opt_time(st, r0, z3.BoolVal(True), cw), ex.discr_of(st, r0).t == 0))
        mono_ref_ok = z3.If(dd == 1, opt_time(st, r1, z3.BoolVal(True), m1),
                            z3.If(dd == 2, opt_time(st, r1, z3.BoolVal(True), cm), ex.discr_of(st, r1).t == 0))
        d.require(st, z3.And(wall_ref_ok, mono_ref_ok), 'destructure components')
    d.done()

    # checked_to_system_time / checked_to_instant
    for meth, idx in (('checked_to_system_time', 0), ('checked_to_instant', 1)):
        o = chk.ob(meth, 'PartialComplexTime::%s returns the component iff present' % meth)
        d = Decide(chk, ex, o, cross=False)
        st0 = State()
        p = sym_pct('p')
        fn = find_method(ex, 'PartialComplexTime::' + meth)
        res = ex.run_fn(fn, [p], st0)
        d.no_bad_status(res)
        for st in res:
            if st.status != 'done':
                continue
            dd, w0, m1, cw, cm = pct_parts(st, p)
            if idx == 0:
                prop = z3.If(dd == 0, opt_time(st, st.result, z3.BoolVal(True), w0),
                             z3.If(dd == 2, opt_time(st, st.result, z3.BoolVal(True), cw), ex.discr_of(st, st.result).t == 0))
            else:
                prop = z3.If(dd == 1, opt_time(st, st.result, z3.BoolVal(True), m1),
                             z3.If(dd == 2, opt_time(st, st.result, z3.BoolVal(True), cm), ex.discr_of(st, st.result).t == 0))
            d.require(st, prop, meth)
        d.done()

    # complete_with
    o = chk.ob('complete_with', 'complete_with keeps own components and fills the missing one from the argument')
    d = Decide(chk, ex, o, cross=False)
    st0 = State()
    p = sym_pct('p')
    st0.cells['p'] = p
    c = Tree({}, 'c', 'time::ComplexTime')
    fn = find_method(ex, 'PartialComplexTime::complete_with')
    res = ex.run_fn(fn, [Ptr('p'), c], st0)
    d.no_bad_status(res)
    for st in res:
        if st.status != 'done':
            continue
        dd, w0, m1, cw, cm = pct_parts(st, p)
        argw = ex.child(st, c, 0, T_ST)
        argm = ex.child(st, c, 1, T_IN)
        rw = ex.child(st, st.result, 0, T_ST)
        rm = ex.child(st, st.result, 1, T_IN)
        prop = z3.And(
            z3.If(dd == 0, teq(st, rw, w0), z3.If(dd == 2, teq(st, rw, cw), teq(st, rw, argw))),
            z3.If(dd == 1, teq(st, rm, m1), z3.If(dd == 2, teq(st, rm, cm), teq(st, rm, argm))))
        d.require(st, prop, 'complete_with')
    d.done()

    # is_after_or_eq_any
    o = chk.ob('is_after_or_eq_any', 'true iff some component present on both sides has been reached')
    d = Decide(chk, ex, o, cross=False)
    st0 = State()
    a = Tree({}, 'a', 'time::ComplexTime')
    st0.cells['a'] = a
    p = sym_pct('p')
    fn = find_method(ex, 'ComplexTime::is_after_or_eq_any')
    res = ex.run_fn(fn, [Ptr('a'), p], st0)
    d.no_bad_status(res)
    for st in res:
        if st.status != 'done':
            continue
        dd, w0, m1, cw, cm = pct_parts(st, p)
        aw = ex.child(st, a, 0, T_ST)
        am = ex.child(st, a, 1, T_IN)

        def ge(x, y):
            s1, n1 = tp(st, x)
            s2, n2 = tp(st, y)
            return s1 * NANOS + n1 >= s2 * NANOS + n2
        spec = z3.If(dd == 0, ge(aw, w0), z3.If(dd == 1, ge(am, m1), z3.Or(ge(aw, cw), ge(am, cm))))
        d.require(st, st.result.t == spec, 'is_after_or_eq_any == spec')
    f = d.done()

    # Add / Sub<Duration>
    for ty, key in (('ComplexTime', 'ComplexTime'), ('PartialComplexTime', 'PartialComplexTime')):
        for op, sign in (('Add', 1), ('Sub', -1)):
            o = chk.ob('%s-%s' % (ty, op.lower()), '%s %s Duration shifts exactly the components present, by exactly the duration (panic only on platform overflow)' % (ty, '+' if sign > 0 else '-'))
            d = Decide(chk, ex, o, cross=False)
            st0 = State()
            dur = Tree({}, 'dur', 'std::time::Duration')
            ds, dn = dur_parts(ex, st0, dur)
            dtot = ds * NANOS + dn
            fn = find_method(ex, '<%s as %s>::%s' % (ty, op, op.lower()))
            if ty == 'ComplexTime':
                v = Tree({}, 'a', 'time::ComplexTime')
            else:
                v = sym_pct('p')
            res = ex.run_fn(fn, [v, dur], st0)

            def shifted(st, r, x):
                s1, n1 = tp(st, x)
                s2, n2 = tp(st, r)
                return s2 * NANOS + n2 == s1 * NANOS + n1 + sign * dtot

            def overflows(st, x):
                s1, n1 = tp(st, x)
                tot = s1 * NANOS + n1 + sign * dtot
                secs = ex.idiv(tot, NANOS)
                whole = s1 + sign * ds
                return z3.Or(secs < I64_MIN, secs > I64_MAX, whole < I64_MIN, whole > I64_MAX)
            for st in res:
                if ty == 'ComplexTime':
                    aw = ex.child(st, v, 0, T_ST)
                    am = ex.child(st, v, 1, T_IN)
                    if st.status == 'done':
                        rw = ex.child(st, st.result, 0, T_ST)
                        rm = ex.child(st, st.result, 1, T_IN)
                        d.require(st, z3.And(shifted(st, rw, aw), shifted(st, rm, am)), 'both components shifted')
                    elif st.status == 'panic':
                        d.require(st, z3.Or(overflows(st, aw), overflows(st, am)), 'panic only on overflow')
                    else:
                        d.no_bad_status([st])
                else:
                    dd, w0, m1, cw, cm = pct_parts(st, v)
                    if st.status == 'done':
                        rd, rw0, rm1, rcw, rcm = pct_parts(st, st.result)
                        prop = z3.And(rd == dd,
                                      z3.If(dd == 0, shifted(st, rw0, w0),
                                            z3.If(dd == 1, shifted(st, rm1, m1),
                                                  z3.And(shifted(st, rcw, cw), shifted(st, rcm, cm)))))
                        d.require(st, prop, 'same variant, components shifted')
                    elif st.status == 'panic':
                        prop = z3.If(dd == 0, overflows(st, w0), z3.If(dd == 1, overflows(st, m1),
                                                                      z3.Or(overflows(st, cw), overflows(st, cm))))
                        d.require(st, prop, 'panic only on overflow')
                    else:
                        d.no_bad_status([st])
            d.done()

    # From conversions
    convs = [
        ('<PartialComplexTime as From<ComplexTime>>', 'time::ComplexTime', 'pct-complex'),
        ('<PartialComplexTime as From<SystemTime>>', T_ST, 'pct-wall'),
        ('<PartialComplexTime as From<Instant>>', T_IN, 'pct-mono'),
        ('<SystemTime as From<ComplexTime>>', 'time::ComplexTime', 'wall'),
        ('<Instant as From<ComplexTime>>', 'time::ComplexTime', 'mono'),
    ]
    o = chk.ob('from-conversions', 'From conversions between SystemTime / Instant / ComplexTime / PartialComplexTime keep exactly the components given')
    d = Decide(chk, ex, o, cross=False)
    for key, argty, kind in convs:
        cands = [f for f in ex.order if f.kind == 'fn' and f.name.endswith('::from') and len(f.args) == 1]
        want_ret = {'pct-complex': 'PartialComplexTime', 'pct-wall': 'PartialComplexTime', 'pct-mono': 'PartialComplexTime',
                    'wall': 'SystemTime', 'mono': 'Instant'}[kind]
        want_arg = argty.split('::')[-1]
        fl = [f for f in cands if f.ret.split('::')[-1] == want_ret and f.args[0][1].split('::')[-1] == want_arg]
        if len(fl) != 1:
            d.failed = d.failed or ('inconclusive', 'conversion %s not found uniquely (%d)' % (key, len(fl)), None, None)
            continue
        st0 = State()
        v = Tree({}, 'x', argty)
        res = ex.run_fn(fl[0], [v], st0)
        d.no_bad_status(res)
        for st in res:
            if st.status != 'done':
                continue
            r = st.result
            if kind == 'pct-complex':
                rd, rw0, rm1, rcw, rcm = pct_parts(st, r)
                prop = z3.And(rd == 2, teq(st, rcw, ex.child(st, v, 0, T_ST)), teq(st, rcm, ex.child(st, v, 1, T_IN)))
            elif kind == 'pct-wall':
                rd, rw0, rm1, rcw, rcm = pct_parts(st, r)
                prop = z3.And(rd == 0, teq(st, rw0, v))
            elif kind == 'pct-mono':
                rd, rw0, rm1, rcw, rcm = pct_parts(st, r)
                prop = z3.And(rd == 1, teq(st, rm1, v))
            elif kind == 'wall':
                prop = teq(st, r, ex.child(st, v, 0, T_ST))
            else:
                prop = teq(st, r, ex.child(st, v, 1, T_IN))
            d.require(st, prop, 'conversion ' + kind)
    d.done()


def storage_ext(chk, ex):
    """StorageExt::get_time / set_time are thin wrappers over the two conversions (checked on the MIR)"""
    o = chk.ob('storage-ext-wiring', 'get_time maps the stored integer through from_micros; set_time stores to_micros(t) or removes the key when it is None')
    d = Decide(chk, ex, o, cross=False)
    try:
        # get_time's closure: |option| option.map(micros_from_epoch_to_system_time)
        clo = [f for f in ex.order if f.kind == 'fn' and re.search(r'StorageExt::get_time::\{closure#0\}$', f.name)]
        if len(set(f.text_hash for f in clo)) != 1:
            raise Inconclusive('get_time closure not found uniquely')
        st0 = State()
        opt = Tree({}, 'stored', 'std::option::Option<i64>')
        res = ex.run_fn(clo[0], [Tree({}, None, 'closure'), opt], st0)
        d.no_bad_status(res)
        for st in res:
            if st.status != 'done':
                continue
            dd = ex.discr_of(st, opt).t
            x = payload(ex, st, opt, 1, 0, 'i64')
            q, r = ex.divmod_const(x.t * 1000, NANOS)
            rd = ex.discr_of(st, st.result).t
            pv = payload(ex, st, st.result, 1, 0, 'std::time::SystemTime')
            s, n = time_parts(ex, st, pv)
            d.require(st, z3.If(dd == 1, z3.And(rd == 1, s == q, n == r), rd == 0), 'get_time closure == map(from_micros)')
        # set_time: set_option_int(key, to_micros(value.into()))
        fn = [f for f in ex.order if f.kind == 'fn' and f.name.endswith('StorageExt::set_time')]
        if len(set(f.text_hash for f in fn)) != 1:
            raise Inconclusive('set_time not found uniquely')
        st0 = State()
        t = Tree({}, 't', 'std::time::SystemTime')
        sec, nsec = time_parts(ex, st0, t)
        key = Sc(z3.StringVal('k'), 'str')
        res = ex.run_fn(fn[0], [Ptr('storage'), key, t], st0)
        d.no_bad_status(res)
        total = sec * NANOS + nsec
        us = z3.If(total >= 0, ex.idiv(total, 1000), -ex.idiv(-total, 1000))
        fits = z3.And(us >= I64_MIN, us <= I64_MAX)
        for st in res:
            if st.status != 'done':
                continue
            evs = [e for e in st.trace if e.kind == 'env']
            if len(evs) != 1:
                d.failed = d.failed or ('violated', 'set_time made %d storage calls' % len(evs), None, st)
                continue
            e = evs[0]
            if e.name.endswith('::set_int'):
                d.require(st, z3.And(fits, e.args[2].t == us, e.args[1].t == key.t), 'set_int(key, to_micros(t)) with micros fitting')
            elif e.name.endswith('::remove'):
                d.require(st, z3.And(z3.Not(fits), e.args[1].t == key.t), 'remove(key) only when micros do not fit')
            else:
                d.failed = d.failed or ('violated', 'unexpected storage call ' + e.name, None, st)
    except Inconclusive as e:
        d.failed = d.failed or ('inconclusive', str(e), None, None)
    d.done()


if __name__ == '__main__':
    chk = Check('C19')
    try:
        run(chk)
    except Exception as e:          # nothing the engine cannot digest may look like a verdict: exit 2
        import traceback
        o = chk.ob('engine', 'executor could not interpret the code')
        o.status = 'inconclusive'
        o.detail = ('%s: %s' % (type(e).__name__, e)) if not isinstance(e, Inconclusive) else str(e)
        if not isinstance(e, Inconclusive):
            o.detail += ' | ' + ' <- '.join(l.strip() for l in traceback.format_exc().strip().split('\n')[-7:-1:2])
    sys.exit(chk.finish())
