"""Exploration of StateMachine::run (with the real select! expansions, Fuse, join) and of wait_for_reboot,
with start_update_check / ping_omaha replaced by events, timers and the control channel able to be
pending; monitors for C05 (consent gating), C11 (control replies), C12 (timers), C04 (Idle /
WaitingForReboot) and C18 (waited-for-reboot report)."""
from smbase import *
import time
from callers import dval, variant_name, decode_yield, decode_metric, story, mk_assume
from models import dur_parts, time_parts, NANOS
from smodels import as_str
import smodels
from tailmon import fidx

POS = ('Ok', 'OkUpdateDeferred')


NEED = {'invalid', 'throttled-request', 'started-request', 'already-running-check', 'already-running-reboot', 'scheduled-check',
        'reboot', 'ondemand-upgrade', 'minimum-wait', 'report-ok', 'report-skipped'}
PLAN_LABELS = {'quick': ['requests-no-reboot', 'requests-reboot-wait', 'two-iterations-no-requests-no-reboot', 'reboot-wait-two-rounds', 'requested-check-then-request-in-reboot-wait', 'two-requests-during-check', 'control-channel-closed', 'startup-report-two-iterations'],
               'thorough': ['two-requests-no-reboot', 'two-requests-reboot-wait', 'two-iterations-one-request']}


def parts(tier):
    """one part per exploration plan (run in parallel processes by Check.parallel)"""
    return ['run:' + l for l in PLAN_LABELS['quick'] + (PLAN_LABELS['thorough'] if tier == 'thorough' else [])]


def post_merge(chk):
    """vacuity guard over the union of what the plans reached"""
    cover = set(chk.extra.get('run_covered') or [])
    for o in chk.obligations:
        if o.name == 'run-explored' and o.status == 'holds' and not NEED <= cover:
            o.status = 'inconclusive'
            o.detail = 'vacuous: not reached: %s' % sorted(NEED - cover)


def pendable(name):
    return name.endswith('Timer>::wait_for') or name.endswith('Timer>::wait_until')


def explore_run(chk, nctl=1, unroll=2, max_pending=1, max_paths=30000, polls=6, assume=None, iters=None, pend_policy=None, may_close=False, ctl_policy=None, stop_at_first_reboot_question=False):
    def shape(o, t):
        return 1
    iters = unroll if iters is None else iters

    def stop_when(st, key):
        if stop_at_first_reboot_question and key.endswith('::reboot_allowed'):
            return True
        if key.endswith('::update_check_allowed'):
            return len([e for e in st.trace if e.kind == 'env' and e.name.endswith('::update_check_allowed')]) > iters
        return False
    cfg = dict(unroll=unroll, env_assume=assume or mk_assume('sut'), shape=shape, max_paths=max_paths, on_budget='stop',
               pendable=pendable, max_pending=max_pending, max_control_requests=nctl, stop_when=stop_when, pend_policy=pend_policy, control_may_close=may_close, ctl_policy=ctl_policy)
    ex = make_sm_executor(chk, cfg, cuts=('persist', 'appset', 'sut', 'ping', 'select'))
    fn = find_method(ex, 'StateMachine::run')
    sm = Tree({}, 'sm', 'StateMachine')
    res = drive_async(ex, fn, [sm, Tree({}, 'control', 'Receiver'), Tree({}, 'co', 'Yield')], max_polls=polls)
    return ex, res


class Step:
    def __init__(self, i, e, kind, name):
        self.i, self.e, self.kind, self.name = i, e, kind, name
        self.info = {}

    def __repr__(self):
        return self.name


def decode(ex, st):
    """list of Steps with decoded answers"""
    out = []
    for i, e in enumerate(st.trace):
        if e.kind == 'yield':
            y = decode_yield(ex, st, e)
            s = Step(i, e, 'yield', y[0] + ('(%s)' % y[1] if y[1] else ''))
            s.info['value'] = y[2]
            out.append(s)
            continue
        if e.kind == 'susp':
            s = Step(i, e, 'susp', 'suspend')
            s.info['ctl_polled'] = e.args[0] > 0
            out.append(s)
            continue
        if e.kind != 'env':
            continue
        short = e.name.split('>::')[-1].split('::')[-1]
        s = Step(i, e, 'env', short)
        if short == 'update_check_allowed':
            dec = Tree({}, e.out + '!out', 'policy::CheckDecision')
            d = dval(ex, st, ex.discr_of(st, dec).t)
            s.info['decision'] = variant_name(ex, 'CheckDecision', d)
            s.info['dec'] = dec
            s.info['options'] = e.args[4]
        elif short == 'reboot_allowed':
            s.info['answer'] = dval(ex, st, z3.Bool(e.out + '!out'))
            s.info['options'] = e.args[1]
        elif short == 'start_update_check':
            s.info['params'] = e.args[0]
            rb = Tree({}, e.out, None)
            s.info['reboot'] = dval(ex, st, ex.discr_of(st, rb).t)
        elif short == 'control-request':
            req = e.args[0]
            s.info['req'] = req
            opts = payload(ex, st, req, 0, 0, 'common::CheckOptions')
            src = ex.child(st, opts, fidx(ex, 'CheckOptions', 'source'), 'InstallSource')
            s.info['on_demand'] = dval(ex, st, ex.discr_of(st, src).t == ex.src.variant_index('InstallSource', 'OnDemand'))
            s.info['options'] = opts
        elif short == 'reply':
            s.info['value'] = variant_name(ex, 'StartUpdateCheckResponse', dval(ex, st, ex.discr_of(st, e.args[1]).t))
            s.info['responder'] = e.args[0]
        elif short in ('wait_for', 'wait_until'):
            s.info['fired'] = bool(st.extra.get(('fired', e.out)))
            s.info['firedat'] = st.extra.get(('firedat', e.out))
            s.info['arg'] = e.args[1]
        elif short == 'compute_next_update_time':
            s.info['timing'] = Tree({}, e.out + '!out', 'common::CheckTiming')
        out.append(s)
    return out


def opts_source_is_ondemand(ex, st, opts):
    v = opts[2] if isinstance(opts, tuple) else opts
    src = ex.child(st, v, fidx(ex, 'CheckOptions', 'source'), 'InstallSource')
    return ex.discr_of(st, src).t == ex.src.variant_index('InstallSource', 'OnDemand')


def monitor_run(chk, tier):
    obs = {}
    for name, desc in (
        ('invalid-apps-never-start', 'if any app has an empty id or version 0 the state machine ends at once: no policy call, no request, no event'),
        ('check-needs-consent', 'a check starts only right after update_check_allowed answered Ok/OkUpdateDeferred in the same loop iteration, with exactly the request parameters of that answer; a negative answer leads to no check (and Throttled to a requester)'),
        ('reboot-needs-consent', 'perform_reboot happens only after a check that returned reboot-needed and after the most recent reboot_allowed answer was yes; the reboot question carries on-demand options only if an on-demand request was received (or the check was on-demand)'),
        ('one-truthful-reply', 'every received start-update-check request gets exactly one reply: Started / Throttled when it arrived while waiting (according to the policy decision, and the check then runs with the request\'s options), AlreadyRunning while a check or the reboot wait is in progress'),
        ('timers-follow-policy', 'before every wait the policy is asked for the timing, it is stored and announced; timers are armed with exactly its time bound and minimum wait; a scheduled check starts only after the time-bound timer and (when present) the minimum-wait timer have fired; in the reboot wait the reboot question is re-asked only after its 30-minute timer fired or an on-demand request arrived, pings only after the ping timers fired'),
        ('idle-and-waiting-for-reboot', 'each check is followed by Idle, with WaitingForReboot in between exactly when a reboot is pending'),
        ('run-explored', 'every explored path of StateMachine::run ends normally or at the stated bound: no panic (unwrap/expect, arithmetic), no abort; the path budget was not exhausted and every behaviour class the monitors need was reached (vacuity guard)'),
        ('waited-for-reboot-report', 'the waited-for-reboot duration is reported iff a finish time is stored and the stored target version equals the running OS version; after a successful report both keys are removed and committed and the report is not repeated; otherwise nothing is removed'),
    ):
        obs[name] = chk.ob(name, desc)
    def with_reboot(needed, finish_time=None, negative=False, plain_timing=False):
        inner = mk_assume('sut')
        def assume(ex, st, name, val, ty):
            if plain_timing and name.endswith('::compute_next_update_time!out'):
                # this exploration is about the reboot questions, not the timers: wall-clock bound, no minimum wait
                tm = ex.child(st, val, fidx(ex, 'CheckTiming', 'time'), 'time::PartialComplexTime')
                mw = ex.child(st, val, fidx(ex, 'CheckTiming', 'minimum_wait'), 'std::option::Option<std::time::Duration>')
                st.pc.append(ex.discr_of(st, tm).t == 0)
                st.pc.append(ex.discr_of(st, mw).t == 0)
            if name == 'start_update_check' and needed is not None:
                st.pc.append(ex.discr_of(st, val, ty).t == (0 if needed else 1))
            if finish_time is False and name.endswith('Storage>::get_int!out'):
                st.pc.append(ex.discr_of(st, val, ty).t == 0)       # no finish time stored (the report is explored separately)
            if negative and name.endswith('::update_check_allowed!out'):
                st.pc.append(ex.discr_of(st, val, ty).t == 2)       # TooSoon
            return inner(ex, st, name, val, ty)
        return assume
    def reboot_wait_policy(st, name, key):
        """the reboot wait in depth: the check itself completes at once and its own timers fire (so the one
        request arrives during the reboot wait); in the reboot wait the ping time bound never comes, the
        30-minute timer may or may not fire"""
        in_reboot = any(e.kind == 'env' and e.name.endswith('::reboot_allowed') for e in st.trace)
        if name == 'start_update_check' or not in_reboot:
            return 'fire'
        if name.endswith('Timer>::wait_until'):
            return 'pend'
        return 'both'
    def requested_check_policy(st, name, key):
        """as reboot_wait_policy, but the first wait is ended by a request, never by its timers: the check is a
        requested one (so its options may already be on-demand when a second request arrives in the reboot wait)"""
        in_reboot = any(e.kind == 'env' and e.name.endswith('::reboot_allowed') for e in st.trace)
        if name == 'start_update_check':
            return 'fire'
        if not in_reboot:
            return 'pend'
        if name.endswith('Timer>::wait_until'):
            return 'pend'
        return 'both'
    def during_check_policy(st, name, key):
        """a scheduled check (its timers fire) that stays pending while requests arrive; then the reboot wait with
        the ping time bound never coming"""
        in_reboot = any(e.kind == 'env' and e.name.endswith('::reboot_allowed') for e in st.trace)
        if name == 'start_update_check':
            return 'both'
        if not in_reboot:
            return 'fire'
        if name.endswith('Timer>::wait_until'):
            return 'pend'
        return 'both'

    def requests_only_during_check(st, n):
        started = any(e.kind == 'env' and e.name == 'start_update_check' for e in st.trace)
        over = any(e.kind == 'env' and e.name.endswith('::reboot_allowed') for e in st.trace)
        return started and not over
    # several explorations, each symbolic in one group of dimensions (the others fixed as stated)
    plans = [
        dict(label='requests-no-reboot', nctl=1, unroll=1, assume=with_reboot(False, finish_time=False), max_paths=20000),
        dict(label='requests-reboot-wait', nctl=1, unroll=1, assume=with_reboot(True, finish_time=False), max_paths=20000),
        dict(label='two-iterations-no-requests-no-reboot', nctl=0, unroll=2, assume=with_reboot(False, finish_time=False), max_paths=20000, polls=4),
        dict(label='reboot-wait-two-rounds', nctl=1, unroll=2, iters=1, assume=with_reboot(True, finish_time=False, plain_timing=True), max_paths=40000, polls=3, max_pending=0, pend_policy=reboot_wait_policy),
        dict(label='requested-check-then-request-in-reboot-wait', nctl=2, unroll=2, iters=1, assume=with_reboot(True, finish_time=False, plain_timing=True), max_paths=40000, polls=3, max_pending=0, pend_policy=requested_check_policy),
        dict(label='two-requests-during-check', nctl=2, unroll=3, iters=1, stop_at_first_reboot_question=True, assume=with_reboot(True, finish_time=False, plain_timing=True), max_paths=40000, polls=4, max_pending=2, pend_policy=during_check_policy, ctl_policy=requests_only_during_check),
        dict(label='control-channel-closed', nctl=0, unroll=1, iters=1, assume=with_reboot(False, finish_time=False, plain_timing=False), max_paths=20000, may_close=True),
        dict(label='startup-report-two-iterations', nctl=0, unroll=2, assume=with_reboot(False, negative=True), max_paths=20000, max_pending=0),
    ]
    if tier == 'thorough':
        plans += [dict(label='two-requests-no-reboot', nctl=2, unroll=1, assume=with_reboot(False, finish_time=False), max_paths=80000),
                  dict(label='two-requests-reboot-wait', nctl=2, unroll=1, assume=with_reboot(True, finish_time=False), max_paths=80000),
                  dict(label='two-iterations-one-request', nctl=1, unroll=2, assume=with_reboot(False, finish_time=False), max_paths=120000)]
    Ds = {}
    cover = set()
    samples = []
    info = []
    single = chk.part[len('run:'):] if (chk.part or '').startswith('run:') else None
    if single is not None:
        plans = [pl for pl in plans if pl['label'] == single]
        if not plans:
            raise Inconclusive('no exploration plan named %s' % single)
    for plan in plans:
        t_plan = time.time()
        ex, res = explore_run(chk, nctl=plan['nctl'], unroll=plan['unroll'], max_pending=plan.get('max_pending', 1), max_paths=plan['max_paths'], assume=plan['assume'], polls=plan.get('polls', 6), pend_policy=plan.get('pend_policy'), iters=plan.get('iters'), may_close=plan.get('may_close', False), ctl_policy=plan.get('ctl_policy'), stop_at_first_reboot_question=plan.get('stop_at_first_reboot_question', False))
        for n_, o in obs.items():
            if n_ not in Ds:
                Ds[n_] = Decide(chk, ex, o, cross=False)
            Ds[n_].ex = ex
        for st in res:
            if st.status not in ('done', 'bound'):
                Ds['run-explored'].no_bad_status([st])
                continue
            steps = decode(ex, st)
            names = [s.name for s in steps]
            if len(samples) < 8 and len(names) > 18 and len(samples) < 3 * (len(info) + 1):
                samples.append(names)
            check_path(ex, st, steps, Ds, cover)
        if ex.budget_hit:
            Ds['run-explored'].failed = Ds['run-explored'].failed or ('inconclusive', 'path budget exhausted in exploration %s' % plan['label'], None, None)
        info.append({'exploration': plan['label'], 'wall_s': round(time.time() - t_plan, 1), 'paths': len(res), 'control_requests': plan['nctl'], 'loop_iterations': plan['unroll']})
        chk.absorb(ex)
    chk.samples.append({'run_paths': samples})
    chk.extra['run_explorations'] = info
    chk.extra['run_covered'] = sorted(cover)
    need = NEED
    if single is None and not need <= cover:
        Ds['run-explored'].failed = Ds['run-explored'].failed or ('inconclusive', 'vacuous: not reached: %s' % sorted(need - cover), None, None)
    for name, d in Ds.items():
        f = d.done()
        if f and f[0] == 'violated':
            d.ob.key = name
            d.ob.cex = {'path': [s.name for s in decode(d.ex, f[3])]} if f[3] is not None else None
    return Ds


def check_path(ex, st, steps, Ds, cover):
    names = [s.name for s in steps]

    def bad(D, msg):
        Ds[D].failed = Ds[D].failed or ('violated', '%s [path %s]' % (msg, names), None, st)

    # ---- invalid apps
    av = [s for s in steps if s.name == 'all_valid']
    if not av or steps[0].name != 'all_valid':
        return bad('invalid-apps-never-start', 'validity of the app set is not the first thing checked')
    valid_t = z3.Bool(av[0].e.out)
    valid = dval(ex, st, valid_t)
    if valid == 0:
        cover.add('invalid')
        if len(steps) != 1 or st.status != 'done':
            bad('invalid-apps-never-start', 'state machine did something with an invalid app set')
        return
    if valid is None:
        # the code did not branch on the answer (or the branches were merged): whatever it did after asking, it
        # may only have done for a valid app set; stopping at once only for an invalid one
        if len(steps) != 1 or st.status != 'done':
            Ds['invalid-apps-never-start'].require(st, valid_t, 'the state machine goes on only with a valid app set')
        else:
            Ds['invalid-apps-never-start'].require(st, z3.Not(valid_t), 'the state machine ends at once only for an invalid app set')
        if ex.check(st, [valid_t]) != 'sat':
            return
        st = st.clone()
        st.pc.append(valid_t)
    # ---- startup: waited-for-reboot bookkeeping
    waited_report(ex, st, steps, Ds['waited-for-reboot-report'], cover, bad)
    # ---- walk
    i = 0
    n = len(steps)
    pending_req = None          # request waiting for its reply
    mode = 'idle'               # idle | check | reboot
    last_timing = None
    timers = []                 # timers armed for the current wait
    last_allowed = None
    reboot_opts_ondemand_ok = False
    check_ondemand = None
    cur_reboot_needed = None
    thirty = None
    ping_timers = []
    got_ondemand_in_reboot = False
    since_compute = []
    def timers_complete(why):
        """the timers armed for the current wait are exactly those the policy's timing calls for"""
        if last_timing is None:
            return
        tm = last_timing.info['timing']
        mw = ex.child(st, tm, fidx(ex, 'CheckTiming', 'minimum_wait'), 'std::option::Option<std::time::Duration>')
        nfor = len([t for t in timers if t.name == 'wait_for'])
        nuntil = len([t for t in timers if t.name == 'wait_until'])
        if nuntil != 1:
            bad('timers-follow-policy', '%d time-bound timers armed for one wait (%s)' % (nuntil, why))
        if nfor == 0:
            # no minimum-wait timer: only right if the policy gave no minimum wait (of whatever length)
            Ds['timers-follow-policy'].require(st, ex.discr_of(st, mw).t == 0, 'no minimum-wait timer armed although the policy gave a minimum wait (%s)' % why)
        elif nfor > 1:
            bad('timers-follow-policy', '%d minimum-wait timers armed for one wait (%s)' % (nfor, why))

    wait_over = False
    for k, s in enumerate(steps):
        nm = s.name
        if nm in ('control-request', 'update_check_allowed', 'ping_omaha') and mode in ('idle', 'reboot') and timers is not None and last_timing is not None \
                and not any(x.name in ('control-request', 'update_check_allowed', 'ping_omaha', 'reboot_allowed') for x in steps[steps.index(last_timing):k]):
            timers_complete('before ' + nm)
        if nm == 'compute_next_update_time':
            last_timing = s
            wait_over = False
            timers = []
            # stored and announced
            nxt = steps[k + 1] if k + 1 < n else None
            if nxt is not None and nxt.name != 'ScheduleChange':
                bad('timers-follow-policy', 'the policy\'s timing is not announced right away')
            elif nxt is not None:
                sched = payload(ex, st, nxt.info['value'], 1, 0, 'common::UpdateCheckSchedule')
                nut = ex.child(st, sched, fidx(ex, 'UpdateCheckSchedule', 'next_update_time'), 'std::option::Option<common::CheckTiming>')
                got = payload(ex, st, nut, 1, 0, 'common::CheckTiming')
                if dval(ex, st, ex.discr_of(st, nut).t) != 1 or not ex.veq(got, s.info['timing']):
                    bad('timers-follow-policy', 'the announced schedule does not carry the policy\'s timing')
        elif nm in ('wait_for', 'wait_until'):
            if mode == 'reboot' and nm == 'wait_for' and is_thirty_minutes(ex, st, s):
                thirty = s
            else:
                timers.append(s)
                if last_timing is None or (wait_over and mode == 'idle'):
                    bad('timers-follow-policy', 'a timer armed for a new wait without asking the policy for the timing again')
                else:
                    tm = last_timing.info['timing']
                    if nm == 'wait_until':
                        t = ex.child(st, tm, fidx(ex, 'CheckTiming', 'time'), 'time::PartialComplexTime')
                        if not ex.veq(s.info['arg'], t):
                            bad('timers-follow-policy', 'the time-bound timer is not armed with the policy\'s time')
                    else:
                        mw = ex.child(st, tm, fidx(ex, 'CheckTiming', 'minimum_wait'), 'std::option::Option<std::time::Duration>')
                        if dval(ex, st, ex.discr_of(st, mw).t) != 1 or not ex.veq(s.info['arg'], payload(ex, st, mw, 1, 0, 'std::time::Duration')):
                            bad('timers-follow-policy', 'the minimum-wait timer is not armed with the policy\'s minimum wait')
                        cover.add('minimum-wait')
        elif nm == 'suspend':
            # whenever the machine goes to sleep while waiting (for the next check, or to reboot) or while a
            # check runs, it must be listening to the control channel: a request arriving now wakes it
            if not s.info['ctl_polled'] and k > 0 and any(x.name == 'compute_next_update_time' for x in steps[:k]):
                bad('one-truthful-reply', 'the machine suspended without listening to the control channel (a request arriving now would get no reply until a timer fires); last steps %s' % [x.name for x in steps[max(0, k - 4):k]])
        elif nm == 'control-request':
            if pending_req is not None:
                bad('one-truthful-reply', 'a second request was taken before the first was answered')
            pending_req = s
            if mode == 'reboot' and s.info['on_demand'] == 1:
                got_ondemand_in_reboot = True
        elif nm == 'reply':
            if pending_req is None:
                bad('one-truthful-reply', 'a reply without a request')
                continue
            req = pending_req.info['req']
            resp = payload(ex, st, req, 0, 1, None)
            if not ex.veq(s.info['responder'], resp):
                bad('one-truthful-reply', 'the reply went to another responder')
            want = None
            if mode == 'idle':
                if last_allowed is None or last_allowed.i < pending_req.i:
                    bad('one-truthful-reply', 'a request taken while waiting was answered before the policy was asked')
                else:
                    want = 'Started' if last_allowed.info['decision'] in POS else 'Throttled'
                    cover.add('started-request' if want == 'Started' else 'throttled-request')
            else:
                want = 'AlreadyRunning'
                cover.add('already-running-check' if mode == 'check' else 'already-running-reboot')
            if want and s.info['value'] != want:
                bad('one-truthful-reply', 'reply %s, expected %s (machine was %s)' % (s.info['value'], want, mode))
            if mode == 'reboot':
                # an on-demand request during the reboot wait makes the machine ask at once whether it may
                # reboot now (whatever the options were before)
                nxt = steps[k + 1] if k + 1 < n else None
                # ... a question that the 30-minute timer caused (it fired right before it) is not that one
                by_timer = nxt is not None and nxt.name == 'reboot_allowed' and thirty is not None and thirty.info['fired'] \
                    and thirty.info['firedat'] is not None and s.i < thirty.info['firedat'] <= nxt.i
                if nxt is not None and (nxt.name != 'reboot_allowed' or by_timer):
                    Ds['one-truthful-reply'].require(st, z3.Not(opts_source_is_ondemand(ex, st, pending_req.info['options'])),
                                                     'an on-demand request during the reboot wait is followed by the reboot question')
            pending_req = None
        elif nm == 'update_check_allowed':
            last_allowed = s
            # this wait is over: whatever wait comes next must start by asking the policy for the timing again
            # (also after a throttled check)
            wait_over = True
            if mode != 'idle':
                bad('check-needs-consent', 'policy asked about a check while one is in progress')
            # options: default for a timer wake-up, the request's options for a requested one
            o = s.info['options']
            ov = o[2] if isinstance(o, tuple) else o
            if pending_req is not None:
                if not ex.veq(ov, pending_req.info['options']):
                    bad('one-truthful-reply', 'the policy was not asked with the request\'s options')
            else:
                cover.add('scheduled-check')
                Ds['timers-follow-policy'].require(st, ex.discr_of(st, ex.child(st, ov, fidx(ex, 'CheckOptions', 'source'), 'InstallSource')).t == ex.src.variant_index('InstallSource', 'ScheduledTask'),
                                                   'a timer wake-up uses the default (scheduled) options')
                # all timers of this wait must have fired
                wu = [t for t in timers if t.name == 'wait_until']
                if len(wu) != 1 or not all(t.info['fired'] for t in timers):
                    bad('timers-follow-policy', 'a scheduled check began although a timer of this wait had not fired (timers %s)' % [(t.name, t.info['fired']) for t in timers])
            if s.info['decision'] is None and not (st.status == 'bound' and s is [x for x in steps if x.name == 'update_check_allowed'][-1]):
                Ds['run-explored'].failed = Ds['run-explored'].failed or ('inconclusive', 'policy decision undecided', None, st)
        elif nm == 'start_update_check':
            if last_allowed is None or last_allowed.info['decision'] not in POS or any(x.name in ('start_update_check', 'compute_next_update_time') for x in steps[steps.index(last_allowed) + 1:k]):
                bad('check-needs-consent', 'a check started without a positive policy answer for this very attempt')
            else:
                dec = last_allowed.info['dec']
                idx = 0 if last_allowed.info['decision'] == 'Ok' else 1
                p = payload(ex, st, dec, idx, 0, 'request_builder::RequestParams')
                if not ex.veq(s.info['params'], p):
                    bad('check-needs-consent', 'the check does not use the request parameters the policy returned')
            mode = 'check'
            cur_reboot_needed = s.info['reboot']
            o = last_allowed.info['options'] if last_allowed else None
            check_ondemand = o
        elif nm == 'StateChange(WaitingForReboot)':
            if mode != 'check' or cur_reboot_needed != 0:
                bad('idle-and-waiting-for-reboot', 'WaitingForReboot announced although no reboot is pending')
            mode = 'reboot'
            thirty = None
            got_ondemand_in_reboot = False
        elif nm == 'StateChange(Idle)':
            if mode == 'check' and cur_reboot_needed == 0:
                bad('idle-and-waiting-for-reboot', 'Idle announced without WaitingForReboot although a reboot is pending')
            if mode == 'idle':
                bad('idle-and-waiting-for-reboot', 'Idle announced without a check')
            mode = 'idle'
            last_allowed = None
        elif nm == 'reboot_allowed':
            if mode != 'reboot':
                bad('reboot-needs-consent', 'reboot question asked outside the reboot wait')
                continue
            prev = [x for x in steps[:k] if x.name == 'reboot_allowed' and x.i > [y.i for y in steps if y.name == 'StateChange(WaitingForReboot)'][-1]]
            od = opts_source_is_ondemand(ex, st, s.info['options'])
            base_od = opts_source_is_ondemand(ex, st, check_ondemand) if check_ondemand is not None else z3.BoolVal(False)
            # on-demand requests received since the policy allowed this check (during the check or the reboot
            # wait) upgrade the pending reboot question, for good; nothing else does
            reqs = [x for x in steps[:k] if x.name == 'control-request' and x.i > (last_allowed.i if last_allowed is not None else -1)]
            req_od = z3.Or([z3.BoolVal(False)] + [opts_source_is_ondemand(ex, st, x.info['options']) for x in reqs])
            Ds['reboot-needs-consent'].require(st, z3.Implies(od, z3.Or(base_od, req_od)), 'reboot question is on-demand only if the check was or an on-demand request arrived')
            if reqs:
                Ds['one-truthful-reply'].require(st, z3.Implies(req_od, od), 'after an on-demand request every later reboot question is on-demand')
            if prev:
                # re-asked: only after the 30-minute timer fired or an on-demand request arrived just before
                just_req = k >= 2 and steps[k - 1].name == 'reply' and steps[k - 2].name == 'control-request' and steps[k - 2].info['on_demand'] == 1
                if just_req:
                    cover.add('ondemand-upgrade')
                    Ds['reboot-needs-consent'].require(st, od, 'after an on-demand request the reboot question is asked with on-demand options')
                elif not (thirty is not None and thirty.info['fired']):
                    bad('timers-follow-policy', 'the reboot question was re-asked although neither its 30-minute timer fired nor an on-demand request arrived')
                    if k >= 2 and steps[k - 1].name == 'reply' and steps[k - 2].name == 'control-request' and steps[k - 2].info['on_demand'] == 0:
                        # C11: only an on-demand request upgrades the pending reboot question and may trigger the reboot
                        bad('reboot-needs-consent', 'a background (not on-demand) request during the reboot wait made the machine ask the reboot question')
        elif nm == 'ping_omaha':
            if mode != 'reboot':
                bad('check-needs-consent', 'ping outside the reboot wait')
            if not timers or not all(t.info['fired'] for t in timers):
                bad('timers-follow-policy', 'a ping was sent although a timer of this wait had not fired')
        elif nm == 'perform_reboot':
            cover.add('reboot')
            ra = [x for x in steps[:k] if x.name == 'reboot_allowed']
            if mode != 'reboot' or not ra or ra[-1].info['answer'] != 1:
                bad('reboot-needs-consent', 'reboot without a pending reboot and a positive most recent answer')
    # unanswered request: only acceptable if the path was cut before the policy's answer was acted upon
    if pending_req is not None:
        after = [s for s in steps if s.i > pending_req.i and s.name not in ('get_apps', 'update_check_allowed')]
        decided = [s for s in steps if s.i > pending_req.i and s.name == 'update_check_allowed' and s.info.get('decision') is not None]
        if after or decided:
            bad('one-truthful-reply', 'a request was never answered (policy decision %s)' % ([s.info.get('decision') for s in decided] or None))


def is_thirty_minutes(ex, st, s):
    d = s.info['arg']
    try:
        secs, nanos = dur_parts(ex, st, d)
    except Inconclusive:
        return False
    return dval(ex, st, z3.And(secs == 1800, nanos == 0)) == 1


def waited_report(ex, st, steps, D, cover, bad):
    """startup reads and the (possibly repeated) waited-for-reboot report"""
    pre = []
    for s in steps:
        if s.name == 'compute_next_update_time':
            break
        pre.append(s)
    nm = [s.name for s in pre]
    gi = [s for s in pre if s.name == 'get_int']
    if not gi:
        return
    D.require(st, gi[0].e.args[1].t == z3.StringVal('update_finish_time'), 'the stored finish time is read at start')
    ft = Tree({}, gi[0].e.out + '!out', 'std::option::Option<i64>')
    has_ft = dval(ex, st, ex.discr_of(st, ft).t)
    gs = [s for s in pre if s.name == 'get_string']
    mets = [s for s in steps if s.name == 'report_metrics' and decode_metric(ex, st, s.e)[0] == 'WaitedForRebootDuration']
    removes = [s for s in steps if s.name == 'remove' and dval(ex, st, z3.Or(s.e.args[1].t == z3.StringVal('update_finish_time'), s.e.args[1].t == z3.StringVal('target_version'))) == 1]
    if has_ft == 0:
        cover.add('report-skipped')
        if gs or mets or removes:
            bad('waited-for-reboot-report', 'no finish time stored but the report machinery ran')
        return
    def split(term):
        # the path does not decide this (the code merged the cases): check the clause under either answer
        for c_ in (term, z3.Not(term)):
            if ex.check(st, [c_]) == 'sat':
                s2 = st.clone()
                s2.pc.append(c_)
                waited_report(ex, s2, steps, D, cover, bad)
    if has_ft is None:
        return split(ex.discr_of(st, ft).t == 1)
    if len(gs) != 1:
        bad('waited-for-reboot-report', 'target version not read although a finish time is stored')
        return
    D.require(st, gs[0].e.args[1].t == z3.StringVal('target_version'), 'the stored target version is read')
    tv = Tree({}, gs[0].e.out + '!out', 'std::option::Option<String>')
    has_tv = dval(ex, st, ex.discr_of(st, tv).t)
    if has_tv is None:
        return split(ex.discr_of(st, tv).t == 1)
    if has_tv == 0:
        cover.add('report-skipped')
        if mets or removes:
            bad('waited-for-reboot-report', 'no target version stored but something was reported or removed')
        return
    osv = smodels.sm_field_path(ex, ['config'])
    tvs = as_str(ex, st, payload(ex, st, tv, 1, 0, 'String'))
    cfgv = ex.child(st, Tree({}, 'sm', 'StateMachine'), osv[0], 'configuration::Config')
    os_ = ex.child(st, cfgv, fidx(ex, 'configuration::Config', 'os'), 'protocol::request::OS')
    osver = as_str(ex, st, ex.child(st, os_, fidx(ex, 'protocol::request::OS', 'version'), 'String'))
    same = dval(ex, st, tvs.t == osver.t)
    if same is None:
        return split(tvs.t == osver.t)
    if same == 0:
        cover.add('report-skipped')
        if mets or removes:
            bad('waited-for-reboot-report', 'stored target version differs from the running version but something was reported or removed')
        return
    # report attempted in every iteration until it succeeds
    if len(mets) > 1:
        bad('waited-for-reboot-report', 'the waited-for-reboot duration was reported %d times' % len(mets))
    if mets:
        cover.add('report-ok')
        k = steps.index(mets[0])
        # the reported duration runs from the recorded finish to the start of *this* state machine: the one
        # monotonic reading taken before anything else, whatever iteration the report finally succeeds in
        mono = [s for s in steps if s.name == 'now_in_monotonic']
        nows = [s for s in steps[:k] if s.name == 'now']
        if not mono or mono[0].i > mets[0].i:
            bad('waited-for-reboot-report', 'no start time of the state machine was read before the report')
        elif not nows:
            bad('waited-for-reboot-report', 'report without a clock reading')
        else:
            start = Tree({}, mono[0].e.out, 'std::time::Instant')
            now = Tree({}, nows[-1].e.out, 'time::ComplexTime')
            ss, sn = time_parts(ex, st, start)
            ws, wn = time_parts(ex, st, ex.child(st, now, 0, 'std::time::SystemTime'))
            ms, mn = time_parts(ex, st, ex.child(st, now, 1, 'std::time::Instant'))
            fin_us = payload(ex, st, ft, 1, 0, 'i64').t
            a = (ws * NANOS + wn) - fin_us * 1000
            b = (ms * NANOS + mn) - (ss * NANOS + sn)
            mv = decode_metric(ex, st, mets[0].e)[1]
            d = payload(ex, st, mv, ex.src.variant_index('Metrics', 'WaitedForRebootDuration'), 0, 'std::time::Duration')
            ds, dn = dur_parts(ex, st, d)
            D.require(st, z3.And(a >= 0, b >= 0, ds * NANOS + dn == a - b),
                      'reported duration == (report time - finish) - (time since the state machine started), clocks consistent')
        after = [s.name for s in steps[k + 1:k + 4]]
        if after != ['remove', 'remove', 'commit'] or len(removes) != 2:
            bad('waited-for-reboot-report', 'after a successful report the two keys are not removed and committed: %s' % after)
    else:
        if removes:
            bad('waited-for-reboot-report', 'keys removed although nothing was reported')
