#!/usr/bin/env python3
"""C10 — Every update outcome is reported to Omaha exactly once."""
import sys, os
sys.path.insert(0, os.path.dirname(os.path.abspath(__file__)))
from smbase import *
import c04

if __name__ == '__main__':
    chk = Check('C10')
    try:
        c04.run(chk, keep=('reports-exact', 'lost-events'), pid='C10', script=os.path.abspath(__file__))
    except Inconclusive as e:
        o = chk.ob('engine', 'executor could not interpret the code')
        o.status = 'inconclusive'
        o.detail = str(e)
    sys.exit(chk.finish())
