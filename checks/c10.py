#!/usr/bin/env python3
"""C10 — Every update outcome is reported to Omaha exactly once."""
import sys, os
sys.path.insert(0, os.path.dirname(os.path.abspath(__file__)))
from smbase import *
import c04

if __name__ == '__main__':
    chk = Check('C10')
    try:
        c04.run(chk, keep=('reports-exact', 'lost-events'), pid='C10', script=os.path.abspath(__file__))
    except Exception as e:          # nothing the engine cannot digest may look like a verdict: exit 2
        import traceback
        o = chk.ob('engine', 'executor could not interpret the code')
        o.status = 'inconclusive'
        o.detail = ('%s: %s' % (type(e).__name__, e)) if not isinstance(e, Inconclusive) else str(e)
        if not isinstance(e, Inconclusive):
            o.detail += ' | ' + ' <- '.join(l.strip() for l in traceback.format_exc().strip().split('\n')[-7:-1:2])
    sys.exit(chk.finish())
