#!/usr/bin/env python3
"""C18 — Update-attempt bookkeeping spans attempts and reboots."""
import sys, os
sys.path.insert(0, os.path.dirname(os.path.abspath(__file__)))
from smbase import *
from callers import dval, variant_name, decode_metric, story, mk_assume, explore_puc
from models import time_parts, dur_parts, NANOS
from smodels import as_str
import smodels
from tailmon import fidx, decode_path, outcome_class

I64_MAX = (1 << 63) - 1


def names_of(st):
    return [e.name.split('>::')[-1].split('::')[-1] if e.kind == 'env' else e.name for e in st.trace if e.kind in ('env', 'model', 'yield')]


def waited_for_reboot(chk):
    o = chk.ob('waited-for-reboot-arithmetic', 'report_waited_for_reboot_duration: Ok and metric == (now.wall - finish) - (now.mono - start) iff finish <= now.wall, start <= now.mono and the difference is non-negative; otherwise Err and no metric; never panics - for all clock values')
    ex = make_sm_executor(chk, dict(unroll=4, env_assume=mk_assume('sut')))
    D = Decide(chk, ex, o)
    fn = find_method(ex, 'StateMachine::report_waited_for_reboot_duration')
    st0 = State()
    finish = Tree({}, 'finish', 'std::time::SystemTime')
    start = Tree({}, 'start', 'std::time::Instant')
    now = Tree({}, 'now', 'time::ComplexTime')
    res = ex.run_fn(fn, [Ptr('sm'), finish, start, now], st0)
    D.no_bad_status(res)
    fs, fn_ = time_parts(ex, st0, finish)
    ss, sn = time_parts(ex, st0, start)
    ws, wn = time_parts(ex, st0, ex.child(st0, now, 0, 'std::time::SystemTime'))
    ms, mn = time_parts(ex, st0, ex.child(st0, now, 1, 'std::time::Instant'))
    a = (ws * NANOS + wn) - (fs * NANOS + fn_)
    b = (ms * NANOS + mn) - (ss * NANOS + sn)
    okc = z3.And(a >= 0, b >= 0, a - b >= 0)
    nok = nerr = 0
    for st in res:
        if st.status != 'done':
            continue
        mets = [e for e in st.trace if e.kind == 'env' and e.name.endswith('report_metrics')]
        rd = ex.discr_of(st, st.result).t
        if mets:
            nok += 1
            mn_, mv = decode_metric(ex, st, mets[0])
            if len(mets) != 1 or mn_ != 'WaitedForRebootDuration':
                D.failed = D.failed or ('violated', 'unexpected metrics %s' % [decode_metric(ex, st, m)[0] for m in mets], None, st)
                continue
            d = payload(ex, st, mv, ex.src.variant_index('Metrics', 'WaitedForRebootDuration'), 0, 'std::time::Duration')
            ds, dn = dur_parts(ex, st, d)
            D.require(st, z3.And(okc, rd == 0, ds * NANOS + dn == a - b), 'metric reported only when computable, with the exact duration')
        else:
            nerr += 1
            D.require(st, z3.And(z3.Not(okc), rd == 1), 'no metric iff the duration cannot be computed, and then Err')
    if not nok or not nerr:
        D.failed = D.failed or ('inconclusive', 'vacuous', None, None)
    f = D.done()
    if f and f[0] == 'violated':
        o.key = o.name
        if f[2] is not None:
            o.cex = dict((str(d), str(f[2][d])) for d in f[2].decls() if str(d).split('.')[0] in ('finish', 'start', 'now'))
    chk.absorb(ex)


def first_seen(chk):
    o = chk.ob('first-seen-time', 'record_update_first_seen_time: same plan id -> stored time (or now if absent) and no write; different/absent id -> id and time written and committed, returns now; a failed id write writes nothing more; a failed time write removes the id again; returns now in both')
    ex = make_sm_executor(chk, dict(unroll=4, env_assume=mk_assume('storage')))
    D = Decide(chk, ex, o, cross=False)
    fn = find_method(ex, 'StateMachine::record_update_first_seen_time')
    st0 = State()
    pid = Sc(z3.String('plan_id'), 'str')
    now = Tree({}, 'now', 'std::time::SystemTime')
    ns, nn = time_parts(ex, st0, now)
    st0.pc.append(z3.And(ns > -(1 << 40), ns < (1 << 40)))
    res = drive_async(ex, fn, [Ptr('sm'), pid, now], st0)
    D.no_bad_status(res)
    cover = set()
    for st in res:
        if st.status != 'done':
            continue
        ops = [e for e in st.trace if e.kind == 'env' and 'Storage>::' in e.name]
        nm = [e.name.split('::')[-1] for e in ops]
        keys = [e.args[1] if len(e.args) > 1 else None for e in ops]
        r = st.result
        rs, rn = time_parts(ex, st, r)
        is_now = z3.And(rs == ns, rn == nn)
        if not nm or nm[0] != 'get_string':
            D.failed = D.failed or ('violated', 'does not start by reading the stored plan id: %s' % nm, None, st)
            continue
        D.require(st, keys[0].t == z3.StringVal('install_plan_id'), 'reads install_plan_id')
        prev = Tree({}, ops[0].out + '!out', 'std::option::Option<String>')
        pd = ex.discr_of(st, prev).t
        pv = as_str(ex, st, payload(ex, st, prev, 1, 0, 'String'))
        same = z3.And(pd == 1, pv.t == pid.t)
        if nm == ['get_string', 'get_int']:
            cover.add('same')
            D.require(st, z3.And(same, keys[1].t == z3.StringVal('update_first_seen_time')), 'only a matching stored id takes the read-only path')
            stored = Tree({}, ops[1].out + '!out', 'std::option::Option<i64>')
            sd = ex.discr_of(st, stored).t
            sv = payload(ex, st, stored, 1, 0, 'i64').t
            q, rr = ex.divmod_const(sv * 1000, NANOS)
            D.require(st, z3.If(sd == 1, z3.And(rs == q, rn == rr), is_now), 'returns the stored first-seen time, or now if absent')
            continue
        D.require(st, z3.Not(same), 'a new plan id (or none stored) takes the writing path')
        D.require(st, is_now, 'the writing path returns now')
        if nm[1:2] != ['set_string']:
            D.failed = D.failed or ('violated', 'writing path is %s' % nm, None, st)
            continue
        D.require(st, z3.And(keys[1].t == z3.StringVal('install_plan_id'), as_str(ex, st, ops[1].args[2]).t == pid.t), 'writes the new plan id')
        r1 = dval(ex, st, ex.discr_of(st, Tree({}, ops[1].out + '!out', None)).t)
        if r1 == 1:
            cover.add('id-write-failed')
            if nm != ['get_string', 'set_string']:
                D.failed = D.failed or ('violated', 'after a failed id write: %s' % nm, None, st)
            continue
        total = ns * NANOS + nn
        us = z3.If(total >= 0, ex.idiv(total, 1000), -ex.idiv(-total, 1000))
        if nm[2:3] != ['set_int']:
            D.failed = D.failed or ('violated', 'first-seen time not written: %s' % nm, None, st)
            continue
        D.require(st, z3.And(keys[2].t == z3.StringVal('update_first_seen_time'), ops[2].args[2].t == us), 'writes now (microseconds) as first-seen time')
        r2 = dval(ex, st, ex.discr_of(st, Tree({}, ops[2].out + '!out', None)).t)
        if r2 == 1:
            cover.add('time-write-failed')
            if nm != ['get_string', 'set_string', 'set_int', 'remove']:
                D.failed = D.failed or ('violated', 'after a failed time write: %s' % nm, None, st)
            else:
                D.require(st, keys[3].t == z3.StringVal('install_plan_id'), 'the id is removed again')
            continue
        cover.add('written')
        if nm != ['get_string', 'set_string', 'set_int', 'commit']:
            D.failed = D.failed or ('violated', 'successful writing path is %s' % nm, None, st)
    if not {'same', 'written', 'id-write-failed', 'time-write-failed'} <= cover:
        D.failed = D.failed or ('inconclusive', 'vacuous: %s' % sorted(cover), None, None)
    f = D.done()
    if f and f[0] == 'violated':
        o.key = o.name
        o.cex = {'path': names_of(f[3])} if f[3] is not None else None
    chk.absorb(ex)


def install_attempts(chk):
    o = chk.ob('install-attempt-counter', 'report_attempts_to_successful_install(success): reports count = stored + 1 (0 if absent; saturating) with the success flag; success removes the key, failure stores the new count')
    ex = make_sm_executor(chk, dict(unroll=4, env_assume=mk_assume('storage')))
    D = Decide(chk, ex, o)
    fn = find_method(ex, 'StateMachine::report_attempts_to_successful_install')
    st0 = State()
    succ = Sc(z3.Bool('success'), 'bool')
    res = drive_async(ex, fn, [Ptr('sm'), succ], st0)
    D.no_bad_status(res)
    for st in res:
        if st.status != 'done':
            continue
        ops = [e for e in st.trace if e.kind == 'env' and 'Storage>::' in e.name]
        nm = [e.name.split('::')[-1] for e in ops]
        mets = [decode_metric(ex, st, e) for e in st.trace if e.kind == 'env' and e.name.endswith('report_metrics')]
        if [m[0] for m in mets] != ['AttemptsToSuccessfulInstall'] or len(nm) != 2 or nm[0] != 'get_int':
            D.failed = D.failed or ('violated', 'flow is %s / %s' % (nm, [m[0] for m in mets]), None, st)
            continue
        stored = Tree({}, ops[0].out + '!out', 'std::option::Option<i64>')
        sd = ex.discr_of(st, stored).t
        sv = payload(ex, st, stored, 1, 0, 'i64').t
        base = z3.If(sd == 1, sv, 0)
        cnt = z3.If(base == I64_MAX, base, base + 1)
        vi = ex.src.variant_index('Metrics', 'AttemptsToSuccessfulInstall')
        mc = payload(ex, st, mets[0][1], vi, 0, 'u64').t
        ms = payload(ex, st, mets[0][1], vi, 1, 'bool').t
        k = 'consecutive_failed_install_attempts'
        # `attempts as u64`: two's complement reinterpretation
        as_u64 = z3.If(cnt >= 0, cnt, cnt + 2 ** 64)
        D.require(st, z3.And(ops[0].args[1].t == z3.StringVal(k), mc == as_u64, ms == succ.t), 'metric carries stored+1 and the success flag')
        if nm[1] == 'remove':
            D.require(st, z3.And(succ.t, ops[1].args[1].t == z3.StringVal(k)), 'the counter is cleared only on success')
        elif nm[1] == 'set_int':
            D.require(st, z3.And(z3.Not(succ.t), ops[1].args[1].t == z3.StringVal(k), ops[1].args[2].t == cnt), 'the counter is stored as stored+1 on failure')
        else:
            D.failed = D.failed or ('violated', 'unexpected storage op %s' % nm[1], None, st)
    f = D.done()
    if f and f[0] == 'violated':
        o.key = o.name
    chk.absorb(ex)


def finish_time_before_reboot(chk):
    o = chk.ob('finish-record-before-reboot', 'after an install with no failed app the finish time (second wall-clock reading) and, when the system app was offered an update, its manifest version (or UNKNOWN) are written and committed before the policy is asked whether a reboot is needed; after a failed install nothing is recorded')
    def assume(ex, st, name, val, ty, inner=mk_assume('tail')):
        base = name[:-4] if name.endswith('!out') else name
        if base == 'do_omaha_request':
            st.pc.append(ex.discr_of(st, val, ty).t == 0)       # reports delivered (lost reports: C10)
            return
        if base.endswith('update_can_start'):
            st.pc.append(ex.discr_of(st, val, ty).t == 0)
            return
        if base.endswith('try_create_install_plan'):
            st.pc.append(ex.discr_of(st, val, ty).t == 0)
            return
        return inner(ex, st, name, val, ty)
    shapes = [(1, 1, 1), (2, 2, 2)] if chk.tier == 'thorough' else [(1, 1, 1), (2, 1, 1)]
    D = None
    cover = set()
    for (na, nr, ni) in shapes:
        ex, res = explore_puc(chk, 'tail', na, nr, ni, cfg=dict(env_assume=assume))
        if D is None:
            D = Decide(chk, ex, o, cross=False)
        D.ex = ex
        for st in res:
            if st.status != 'done':
                D.no_bad_status([st])
                continue
            F = decode_path(ex, st, na)
            if F.undecided or F.results is None or len(F.results) != len(F.update_apps):
                continue
            cls = outcome_class(F)
            tr = st.trace
            nm = names_of(st)
            recs = [e for e in tr if e.kind == 'env' and 'Storage>::' in e.name and e.name.split('::')[-1] in ('set_int', 'remove', 'set_string')
                    and dval(ex, st, e.args[1].t == z3.StringVal('update_finish_time')) == 1]
            tv = [e for e in tr if e.kind == 'env' and 'Storage>::' in e.name and len(e.args) > 1 and dval(ex, st, e.args[1].t == z3.StringVal('target_version')) == 1]
            if cls != 'install-ok':
                if recs or tv:
                    D.failed = D.failed or ('violated', 'finish time / target version recorded after outcome %s' % cls, None, st)
                continue
            cover.add('install-ok')
            walls = [e for e in tr if e.kind == 'env' and e.name.endswith('now_in_walltime')]
            if len(recs) != 1 or len(walls) != 2 or not recs[0].name.endswith('set_int'):
                D.failed = D.failed or ('violated', 'finish time not recorded exactly once: %s' % nm, None, st)
                continue
            fs, fn_ = time_parts(ex, st, Tree({}, walls[1].out, 'std::time::SystemTime'))
            total = fs * NANOS + fn_
            us = z3.If(total >= 0, ex.idiv(total, 1000), -ex.idiv(-total, 1000))
            D.require(st, recs[0].args[2].t == us, 'the recorded finish time is the wall clock read right after the install')
            rb = [i for i, e in enumerate(tr) if e.kind == 'env' and e.name.endswith('reboot_needed')]
            commits = [i for i, e in enumerate(tr) if e.kind == 'env' and e.name.endswith('Storage>::commit')]
            i_rec = tr.index(recs[0])
            if not rb or not [c for c in commits if i_rec < c < rb[0]]:
                D.failed = D.failed or ('violated', 'finish time not committed before reboot_needed: %s' % nm, None, st)
                continue
            # target version: the system app's offer
            sysid_ev = [e for e in tr if e.kind == 'env' and e.name.endswith('get_system_app_id')]
            if len(sysid_ev) != 1:
                D.failed = D.failed or ('violated', 'system app id not consulted', None, st)
                continue
            sysid = as_str(ex, st, Tree({}, sysid_ev[0].out, None))
            undec = [ra for ra in F.update_apps if dval(ex, st, ra.id.t == sysid.t) is None]
            if undec:
                # the code did not compare this offer's id with the system app id on this path: decide the
                # clause under either answer
                split = []
                for c_ in (undec[0].id.t == sysid.t, undec[0].id.t != sysid.t):
                    if ex.check(st, [c_]) == 'sat':
                        s2 = st.clone()
                        s2.pc.append(c_)
                        split.append(s2)
                res.extend(split)
                continue
            offers = [ra for ra in F.update_apps if dval(ex, st, ra.id.t == sysid.t) == 1]
            if offers:
                cover.add('system-offered')
                if len(tv) != 1 or not tv[0].name.endswith('set_string') or not (i_rec < tr.index(tv[0]) < rb[0]):
                    D.failed = D.failed or ('violated', 'target version not recorded for the system app: %s' % nm, None, st)
                    continue
                ra = offers[-1]
                from tailmon import manifest_version
                md, mv = manifest_version(ex, st, ra)
                got = as_str(ex, st, tv[0].args[2]).t
                D.require(st, z3.If(md == 1, got == mv, got == z3.StringVal('UNKNOWN')), 'target version == manifest version of the system app\'s offer (UNKNOWN if none)')
            else:
                cover.add('system-not-offered')
                if tv:
                    D.failed = D.failed or ('violated', 'target version recorded although the system app was not offered an update', None, st)
        chk.absorb(ex)
    if not {'install-ok', 'system-offered', 'system-not-offered'} <= cover:
        D.failed = D.failed or ('inconclusive', 'vacuous: %s' % sorted(cover), None, None)
    f = D.done()
    if f and f[0] == 'violated':
        o.key = o.name
        o.cex = {'path': names_of(f[3])} if f[3] is not None else None


KEEP = ('waited-for-reboot-arithmetic', 'first-seen-time', 'install-attempt-counter', 'finish-record-before-reboot',
        'run-explored', 'waited-for-reboot-report', 'install-attempt-outcome')


def run(chk):
    import runmon, sutmon
    parts = ['helpers', 'finish', 'sut'] + runmon.parts(chk.tier)
    if not chk.parallel(os.path.abspath(__file__), parts, post_merge=runmon.post_merge):
        if chk.want('helpers'):
            waited_for_reboot(chk)
            first_seen(chk)
            install_attempts(chk)
        if chk.want('finish'):
            finish_time_before_reboot(chk)
        if chk.want('run'):
            runmon.monitor_run(chk, chk.tier)
        if chk.want('sut'):
            sutmon.monitor_start_update_check(chk, (1, 2))
    chk.obligations = [o for o in chk.obligations if o.name in KEEP or o.name.startswith('part:')]
    chk.bounds.update({'clock values': 'full width', 'apps': '<= 2', 'stored values': 'arbitrary Option<i64> / Option<String>'})
    chk.assumptions += [
        'storage results symbolic in the three helper explorations; in the perform_update_check exploration reports are delivered, plan creation and policy approve, storage writes succeed, wall clock monotone within +-2^40 s',
        'exchange function / RequestBuilder / persist / AppSetExt as in C04; logging off',
    ]


if __name__ == '__main__':
    chk = Check('C18')
    try:
        run(chk)
    except Exception as e:          # nothing the engine cannot digest may look like a verdict: exit 2
        import traceback
        o = chk.ob('engine', 'executor could not interpret the code')
        o.status = 'inconclusive'
        o.detail = ('%s: %s' % (type(e).__name__, e)) if not isinstance(e, Inconclusive) else str(e)
        if not isinstance(e, Inconclusive):
            o.detail += ' | ' + ' <- '.join(l.strip() for l in traceback.format_exc().strip().split('\n')[-7:-1:2])
    sys.exit(chk.finish())
