#!/usr/bin/env python3
"""C14 — No input can crash the updater; storage failures are harmless."""
import sys, os
sys.path.insert(0, os.path.dirname(os.path.abspath(__file__)))
from smbase import *
import callers, sutmon, tailmon, domaha, c07
from callers import story, mk_assume, explore_puc, decode_yield, builder_ops, dval
from smodels import mk_vec
import smodels


def projection(ex, st):
    """what the outside world sees apart from storage: announced events and requests"""
    out = []
    for e in st.trace:
        if e.kind == 'yield':
            y = decode_yield(ex, st, e)
            out.append('yield:%s%s' % (y[0], '(%s)' % y[1] if y[1] else ''))
        elif e.kind == 'env' and e.name in ('do_omaha_request', 'perform_update_check'):
            out.append('%s[%s]' % (e.name, ','.join(o[0] for o in builder_ops(e)) if e.name == 'do_omaha_request' else ''))
        elif e.kind == 'env' and (e.name.endswith('perform_install') or e.name.endswith('perform_reboot') or e.name.endswith('try_create_install_plan')):
            out.append(e.name.split('::')[-1])
    return tuple(out)


def panic_free(chk, D, ex, res, what, allow=None):
    n = 0
    for st in res:
        if st.status == 'panic':
            if allow and allow(st):
                continue
            r, m = ex.solve(st)
            if r == 'sat':
                D.failed = D.failed or ('violated', '%s: panic reachable: %s  [path %s]' % (what, st.info, story(ex, st)[-8:]), m, st)
            elif r == 'unknown':
                D.failed = D.failed or ('inconclusive', 'solver unknown on a panic path', None, st)
        elif st.status in ('abort', 'bound', 'diverged'):
            D.failed = D.failed or ('inconclusive', '%s: %s %s' % (what, st.status, st.info), None, st)
        else:
            n += 1
    return n


def run(chk):
    o_p = chk.ob('no-panic-path', 'no feasible path of the check, ping, report, exchange, persist/load, bookkeeping and metric helpers reaches a panic (overflow, unwrap/expect on None/Err, index, Vec::remove, time arithmetic) for arbitrary stored values, clock values, statuses, header bytes and contract-conforming policy/installer answers')
    o_s = chk.ob('storage-failures-invisible', 'with every storage write/remove/commit allowed to fail, the sets of (announced events, requests, installer calls) sequences of the check, ping and exchange flows are the same as with a working storage')
    ex0 = make_sm_executor(chk, dict(unroll=5))
    Dp = Decide(chk, ex0, o_p, cross=False)
    Ds = Decide(chk, ex0, o_s, cross=False)
    explored = {}

    def both(name, fn):
        a = fn('sut' if name != 'tail' else 'tail')
        b = fn('storage')
        exa, ra = a
        exb, rb = b
        na = panic_free(chk, Dp, exa, ra, name)
        nb = panic_free(chk, Dp, exb, rb, name + '+storage-faults', allow=CONTRACT.get(name))
        pa = set(projection(exa, s) for s in ra if s.status == 'done')
        pb = set(projection(exb, s) for s in rb if s.status == 'done')
        extra = pb - pa
        if extra:
            Ds.failed = Ds.failed or ('violated', '%s: storage failures produce an observable sequence that a working storage cannot: %s' % (name, list(extra)[0]), None, None)
        explored[name] = {'paths_ok_storage': na, 'paths_faulty_storage': nb, 'observable_sequences': len(pa)}
        chk.absorb(exa)
        chk.absorb(exb)

    def sut(mode):
        def shape(origin, ty):
            if 'AppResponse' in ty or origin.endswith('.v0.0.0.0'):
                return 1
            raise Inconclusive('no shape for %s' % origin)
        ex = make_sm_executor(chk, dict(unroll=5, env_assume=mk_assume(mode), shape=shape, max_paths=30000), cuts=('persist', 'appset', 'puc'))
        fn = find_method(ex, 'StateMachine::start_update_check')
        return ex, drive_async(ex, fn, [Ptr('sm'), Tree({}, 'params', 'RequestParams'), Ptr('co')], State())

    def ping(mode):
        def shape(origin, ty):
            return 1
        ex = make_sm_executor(chk, dict(unroll=5, env_assume=mk_assume(mode), shape=shape, max_paths=30000), cuts=('persist', 'appset', 'do_omaha'))
        fn = find_method(ex, 'StateMachine::ping_omaha')
        return ex, drive_async(ex, fn, [Ptr('sm'), Ptr('co')], State())

    def exchange(mode):
        ex = make_sm_executor(chk, dict(unroll=6, max_header_bytes=21, env_assume=mk_assume(mode)), cuts=("appset",))
        fn = find_method(ex, 'StateMachine::do_omaha_request_and_update_context')
        return ex, drive_async(ex, fn, [Ptr('sm'), Ptr('builder'), Ptr('co')], State())

    def tail(mode):
        m = 'tail' if mode == 'tail' else 'tailstorage'
        return explore_puc(chk, m, 1, 1, 1, cfg=dict(env_assume=tail_assume(m)))

    CONTRACT = {}
    import runmon
    PARTS = ['both:start_update_check', 'both:ping_omaha', 'both:exchange', 'both:tail', 'helpers', 'load', 'delivered'] + runmon.parts(chk.tier)
    if not chk.parallel(os.path.abspath(__file__), PARTS, post_merge=runmon.post_merge):
        for nm_, fn_ in (('start_update_check', sut), ('ping_omaha', ping), ('exchange', exchange), ('tail', tail)):
            if chk.part in (None, 'both:' + nm_):
                both(nm_, fn_)
        if chk.want('helpers'):
            # helpers explored from arbitrary inputs (storage and clock values symbolic)
            for key, args in (('StateMachine::report_check_interval', lambda: [Ptr('sm'), Tree({}, 'src', 'InstallSource')]),):
                ex = make_sm_executor(chk, dict(unroll=4, env_assume=mk_assume('storage')), cuts=('persist', 'appset'))
                fn = find_method(ex, key)
                res = drive_async(ex, fn, args(), State())
                explored[key] = {'paths': panic_free(chk, Dp, ex, res, key)}
                chk.absorb(ex)
            ex = make_sm_executor(chk, dict(unroll=4, env_assume=mk_assume('storage')))
            fn = find_method(ex, 'StateMachine::report_waited_for_reboot_duration')
            res = ex.run_fn(fn, [Ptr('sm'), Tree({}, 'finish', 'std::time::SystemTime'), Tree({}, 'start', 'std::time::Instant'), Tree({}, 'now', 'time::ComplexTime')], State())
            explored['report_waited_for_reboot_duration'] = {'paths': panic_free(chk, Dp, ex, res, 'report_waited_for_reboot_duration')}
            chk.absorb(ex)
            ex, res = explore_puc(chk, 'loop-anyclock', 1)
            explored['attempt_loop'] = {'paths': panic_free(chk, Dp, ex, res, 'attempt loop')}
            chk.absorb(ex)
        for D in (Dp, Ds):
            f = D.done()
            if f and f[0] == 'violated':
                D.ob.key = D.ob.name
                st = f[3]
                D.ob.cex = {'what': f[1]}
                if f[2] is not None and st is not None:
                    D.ob.cex['model'] = dict((str(d), str(f[2][d])) for d in list(f[2].decls())[:40])
        chk.extra['explored'] = explored
        if chk.want('load'):
            c07.persist_load(chk)
            safe_json_prefix(chk)
        if chk.want('delivered'):
            # "every check still ends with a delivered result": on every path of start_update_check, whatever the
            # outcome class (also request-construction errors from an unusable service URL)
            sutmon.monitor_start_update_check(chk, (1,))
        if chk.want('run'):
            runmon.monitor_run(chk, chk.tier)       # the main loop and its start-up (stored finish time / target version arbitrary)
    chk.obligations = [o for o in chk.obligations if o.name in ('no-panic-path', 'storage-failures-invisible', 'load-decoding', 'safe-json-prefix', 'final-announcements-and-persist', 'run-explored') or o.name.startswith('part:')]
    chk.bounds.update({'apps': 1, 'header bytes': 4, 'attempt loop unrolling': 5})
    chk.assumptions += [
        'installer contract: one result per offered app (a mismatch makes Vec::remove / zip misbehave; excluded as not contract-conforming)',
        'totality of serde_json (response bytes), of http/hyper (URLs, header bytes) and hangs are outside: the parser is an event returning an arbitrary Result',
        'callee contracts as in C04/C06/C08; logging off; metrics reporter results ignored (symbolic Ok/Err merged)',
    ]


def safe_json_prefix(chk):
    """the crate's own code in front of serde_json: the XSSI prefix stripping, on every byte string"""
    import c15
    from smodels import env_event
    n = 8 if chk.tier == 'quick' else 12
    o = chk.ob('safe-json-prefix', 'parse_safe_json on every response body of up to %d bytes (every byte value): never panics; hands serde_json the body without its first 5 bytes iff the body starts with the 5 bytes )]}\'\\n, else the whole body; returns serde_json\'s answer unchanged' % n)
    ex = c15.real_builder_executor(chk, dict(unroll=n + 4))
    D = Decide(chk, ex, o, cross=False)
    ex.model_patterns.insert(0, (re.compile(r'(^|::)from_slice(::<.*>)?$'), lambda ex_, st, args, dty, canon: env_event(ex_, st, 'serde_json::from_slice', (ex_.snapshot(st, args[0]),), dty)))
    fn = find_fn(ex, 'parse_safe_json')
    ln = z3.Int('body.len')
    ex.axioms['body.len'] = z3.And(ln >= 0, ln <= n)
    bs = []
    for i in range(n):
        b = z3.Int('body.b%d' % i)
        ex.axioms['body.b%d' % i] = z3.And(b >= 0, b <= 255)
        bs.append(b)
    res = ex.run_fn(fn, [Obj('bstr', (ln, tuple(bs)))], State())
    D.no_bad_status(res)
    PRE = [41, 93, 125, 39, 10]
    has = z3.And(ln >= 5, *[bs[i] == PRE[i] for i in range(5)])
    cover = set()
    for st in res:
        if st.status != 'done':
            continue
        evs = [e for e in st.trace if e.kind == 'env']
        if [e.name for e in evs] != ['serde_json::from_slice']:
            D.failed = D.failed or ('violated', 'serde_json is not called exactly once: %s' % [e.name for e in evs], None, st)
            continue
        a = evs[0].args[0]
        a = a[2] if isinstance(a, tuple) else a
        a = smodels.deref_all(ex, st, a)
        if not (isinstance(a, Obj) and a.kind == 'bstr'):
            D.failed = D.failed or ('inconclusive', 'argument of from_slice is %r' % (a,), None, st)
            continue
        aln, abs_ = a.data
        stripped = z3.And(aln == ln - 5, *[z3.Implies(i < ln - 5, abs_[i] == bs[i + 5]) for i in range(n - 5)])
        whole = z3.And(aln == ln, *[z3.Implies(i < ln, abs_[i] == bs[i]) for i in range(n)])
        D.require(st, z3.If(has, stripped, whole), 'serde_json gets the body minus the prefix iff the prefix is there')
        cover.add('prefix' if dval(ex, st, has) == 1 else 'plain' if dval(ex, st, has) == 0 else 'undecided')
        if not ex.veq(st.result, Tree({}, evs[0].out, None)) and getattr(st.result, 'origin', None) != evs[0].out:
            D.failed = D.failed or ('violated', 'the parser\'s answer is not returned unchanged', None, st)
    if not {'prefix', 'plain'} <= cover:
        D.failed = D.failed or ('inconclusive', 'vacuous: %s' % sorted(cover), None, None)
    f = D.done()
    if f and f[0] == 'violated':
        o.key = o.name
        if f[2] is not None:
            L = mval(f[2], ln)
            o.cex = {'body_bytes': [mval(f[2], bs[i]) for i in range(min(L, n))]}
    chk.absorb(ex)


def tail_assume(mode):
    inner = mk_assume('tail')
    def assume(ex, st, name, val, ty):
        base = name[:-4] if name.endswith('!out') else name
        short = base.split('>::')[-1]
        if mode == 'tailstorage' and 'Storage>::' in base and name.endswith('!out') and short in ('set_int', 'set_string', 'set_bool', 'remove', 'commit'):
            return      # unconstrained: may fail
        if base == 'do_omaha_request':
            n = len([e for e in st.trace if e.kind == 'env' and e.name == 'do_omaha_request'])
            if n > 1:
                st.pc.append(ex.discr_of(st, val, ty).t == 0)
        return inner(ex, st, name, val, ty)
    return assume


if __name__ == '__main__':
    chk = Check('C14')
    try:
        run(chk)
    except Exception as e:          # nothing the engine cannot digest may look like a verdict: exit 2
        import traceback
        o = chk.ob('engine', 'executor could not interpret the code')
        o.status = 'inconclusive'
        o.detail = ('%s: %s' % (type(e).__name__, e)) if not isinstance(e, Inconclusive) else str(e)
        if not isinstance(e, Inconclusive):
            o.detail += ' | ' + ' <- '.join(l.strip() for l in traceback.format_exc().strip().split('\n')[-7:-1:2])
    sys.exit(chk.finish())
