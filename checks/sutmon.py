"""Monitors on start_update_check (perform_update_check replaced by its contract), ping_omaha and
report_omaha_event_and_update_context (exchange replaced by its contract): C08 bookkeeping and
durability, the caller side of C02, the "update only on success" clauses of C09."""
from smbase import *
from callers import (dval, variant_name, decode_yield, decode_metric, story, omaha_events, omaha_outcome,
                     builder_ops, op_named, ERRS, mk_assume)
from smodels import vec_items, vec_len, as_str, mk_vec
from models import deref_all, time_parts, NANOS
import smodels
from tailmon import fidx

T_PCT = 'time::PartialComplexTime'
T_OPCT = 'std::option::Option<time::PartialComplexTime>'


def ctx_terms(ex, st, root='sm'):
    """(counter term, last_update_time value, poll interval value) of the in-memory context"""
    p_cnt = smodels.sm_field_path(ex, ['context', 'state', 'consecutive_failed_update_checks'])
    p_lut = smodels.sm_field_path(ex, ['context', 'schedule', 'last_update_time'])
    cnt = ex.load(st, root, [(k, None) for k in p_cnt[:-1]] + [(p_cnt[-1], 'u32')])
    lut = ex.load(st, root, [(k, None) for k in p_lut[:-1]] + [(p_lut[-1], T_OPCT)])
    return cnt, lut


def lut_is_now(ex, st, lut, now_ev):
    """z3: last_update_time == Some(Complex(now)) for the ComplexTime returned by `now_ev`"""
    now = Tree({}, now_ev.out, 'time::ComplexTime')
    d = ex.discr_of(st, lut).t
    p = payload(ex, st, lut, 1, 0, T_PCT)
    pd = ex.discr_of(st, p).t
    c = payload(ex, st, p, 2, 0, 'time::ComplexTime')
    conds = [d == 1, pd == 2]
    for i, ty in ((0, 'std::time::SystemTime'), (1, 'std::time::Instant')):
        a = time_parts(ex, st, ex.child(st, c, i, ty))
        b = time_parts(ex, st, ex.child(st, now, i, ty))
        conds += [a[0] == b[0], a[1] == b[1]]
    return z3.And(*conds)


def opt_pct_eq(ex, st, a, b):
    """structural equality of two Option<PartialComplexTime>"""
    da, db = ex.discr_of(st, a).t, ex.discr_of(st, b).t
    pa, pb = payload(ex, st, a, 1, 0, T_PCT), payload(ex, st, b, 1, 0, T_PCT)
    ka, kb = ex.discr_of(st, pa).t, ex.discr_of(st, pb).t
    def teq(x, y):
        s1, n1 = time_parts(ex, st, x)
        s2, n2 = time_parts(ex, st, y)
        return z3.And(s1 == s2, n1 == n2)
    w = teq(payload(ex, st, pa, 0, 0, 'std::time::SystemTime'), payload(ex, st, pb, 0, 0, 'std::time::SystemTime'))
    m = teq(payload(ex, st, pa, 1, 0, 'std::time::Instant'), payload(ex, st, pb, 1, 0, 'std::time::Instant'))
    ca, cb = payload(ex, st, pa, 2, 0, 'time::ComplexTime'), payload(ex, st, pb, 2, 0, 'time::ComplexTime')
    c = z3.And(teq(ex.child(st, ca, 0, 'std::time::SystemTime'), ex.child(st, cb, 0, 'std::time::SystemTime')),
               teq(ex.child(st, ca, 1, 'std::time::Instant'), ex.child(st, cb, 1, 'std::time::Instant')))
    return z3.And(da == db, z3.Implies(da == 1, z3.And(ka == kb, z3.If(ka == 0, w, z3.If(ka == 1, m, c)))))


def persist_tail_ok(ex, st, names, D, what):
    """the path ends with: lock, Context::persist(current context), AppSetExt::persist, commit"""
    tail = [n for n in names if n in ('Context::persist', 'persist', 'commit')]
    if tail[-3:] != ['Context::persist', 'persist', 'commit'] or names[-3:] != ['Context::persist', 'persist', 'commit']:
        D.failed = D.failed or ('violated', '%s: the flow does not end with persist(context), persist(apps), commit: %s' % (what, names), None, st)
        return False
    pe = [e for e in st.trace if e.kind == 'model' and e.name == 'Context::persist'][-1]
    ctx = pe.args[0]
    ctxv = ctx[2] if isinstance(ctx, tuple) else ctx
    cur = ex.load(st, 'sm', [(smodels.sm_field_path(ex, ['context'])[0], None)])
    if not ex.veq(ctxv, cur):
        D.failed = D.failed or ('violated', '%s: the context persisted at the end is not the final in-memory context' % what, None, st)
        return False
    return True


def monitor_start_update_check(chk, nresp_list=(1, 2)):
    o_book = chk.ob('check-bookkeeping', 'after a check: success -> failure count 0 and last contact = now; unparseable body / unusable plan -> count+1 (saturating) and last contact = now; request error -> count+1 and last contact untouched; reason metric Omaha / Internal / Network accordingly; AttemptsToSuccessfulCheck(count+1) on success')
    o_final = chk.ob('final-announcements-and-persist', 'every check ends with ScheduleChange(final schedule), ProtocolStateChange(final state), UpdateCheckResult(result), in this order, followed by persist(context) + persist(apps) + commit before the flow returns')
    o_apps = chk.ob('app-set-updated-only-on-success', 'the app set is updated from the response exactly when the check succeeded, with the check\'s own app responses; install attempts are reported iff some app failed or installed')
    o_inst = chk.ob('install-attempt-outcome', 'the install-attempt counter is reported (and stepped) exactly for checks in which some app failed to install or was updated: as a failure if any app failed, as a success only if none failed')
    o_c02 = chk.ob('forged-check-counts-as-failure', 'a check that ended with an authentication failure: failure count + 1, last contact untouched, reason Internal, app set not updated, result Err(OmahaRequest(CupValidation)), no reboot')
    Ds = {}
    nforged = 0
    cover = set()
    samples = []
    for nresp in nresp_list:
        def shape(origin, ty, n=nresp):
            if 'AppResponse' in ty or origin.endswith('.v0.0.0.0'):
                return n
            raise Inconclusive('no shape for %s : %s' % (origin, ty))
        ex = make_sm_executor(chk, dict(unroll=5, env_assume=mk_assume('sut'), shape=shape, max_paths=20000), cuts=('persist', 'appset', 'puc'))
        for o in (o_book, o_final, o_apps, o_inst, o_c02):
            if o.name not in Ds:
                Ds[o.name] = Decide(chk, ex, o, cross=(o is o_book))
            Ds[o.name].ex = ex
        fn = find_method(ex, 'StateMachine::start_update_check')
        st0 = State()
        res = drive_async(ex, fn, [Ptr('sm'), Tree({}, 'params', 'RequestParams'), Ptr('co')], st0)
        cnt0, lut0 = ctx_terms(ex, State())
        for st in res:
            if st.status != 'done':
                Ds['check-bookkeeping'].no_bad_status([st])
                continue
            names = [e.name.split('>::')[-1].split('::')[-1] if e.kind == 'env' else e.name for e in st.trace if e.kind in ('env', 'model')]
            sty = story(ex, st)
            if len(samples) < 6:
                samples.append(sty)
            pe = [e for e in st.trace if e.kind == 'env' and e.name == 'perform_update_check']
            if len(pe) != 1:
                Ds['check-bookkeeping'].failed = Ds['check-bookkeeping'].failed or ('violated', 'perform_update_check called %d times' % len(pe), None, st)
                continue
            # arguments: the policy's parameters and the app set's current apps
            a1 = pe[0].args[0]
            if not (isinstance(a1, Tree) and a1.origin == 'params'):
                Ds['app-set-updated-only-on-success'].failed = Ds['app-set-updated-only-on-success'].failed or ('violated', 'the check does not use the request parameters it was given', None, st)
            res_v = Tree({}, pe[0].out, None)
            rd = dval(ex, st, ex.discr_of(st, res_v).t)
            cnt1, lut1 = ctx_terms(ex, st)
            nows = [e for e in st.trace if e.kind == 'env' and e.name.endswith('TimeSource>::now')]
            reasons = [decode_metric(ex, st, e) for e in st.trace if e.kind == 'env' and e.name.endswith('report_metrics')]
            rnames = [r[0] for r in reasons]
            ufo = [e for e in st.trace if e.kind == 'env' and e.name == 'AppSetExt::update_from_omaha']
            D = Ds['check-bookkeeping']
            sat_inc = z3.If(cnt0.t == 2 ** 32 - 1, cnt0.t, cnt0.t + 1)
            if rd == 0:
                cover.add('ok')
                if len(nows) != 1:
                    D.failed = D.failed or ('violated', 'clock read %d times on success' % len(nows), None, st)
                    continue
                D.require(st, z3.And(cnt1.t == 0, lut_is_now(ex, st, lut1, nows[0])), 'success: count 0, last contact now')
                ats = [r for r in reasons if r[0] == 'AttemptsToSuccessfulCheck']
                if len(ats) != 1 or 'UpdateCheckFailureReason' in rnames:
                    D.failed = D.failed or ('violated', 'success metrics wrong: %s' % rnames, None, st)
                else:
                    D.require(st, payload(ex, st, ats[0][1], ex.src.variant_index('Metrics', 'AttemptsToSuccessfulCheck'), 0, 'u64').t == sat_inc, 'AttemptsToSuccessfulCheck == count+1')
                # app set update with the check's own responses
                DA = Ds['app-set-updated-only-on-success']
                tup = payload(ex, st, res_v, 0, 0, None)
                resp = ex.child(st, tup, 0, 'update_check::Response')
                ars = ex.child(st, resp, 0, 'std::vec::Vec<update_check::AppResponse>')
                if len(ufo) != 1:
                    DA.failed = DA.failed or ('violated', 'app set updated %d times on success' % len(ufo), None, st)
                else:
                    a = ufo[0].args[1]
                    av = a[2] if isinstance(a, tuple) else a
                    if not ex.veq(av, ars):
                        DA.failed = DA.failed or ('violated', 'app set updated from something else than the check\'s app responses', None, st)
                    # ... and before the apps are written out: what is committed with this check's result
                    # are this check's values
                    i_ufo = st.trace.index(ufo[0])
                    i_pa = [i for i, e in enumerate(st.trace) if e.kind in ('env', 'model') and e.name.split('>::')[-1].split('::')[-1] == 'persist' and e.name != 'Context::persist']
                    if not i_pa or i_pa[-1] < i_ufo:
                        DA.failed = DA.failed or ('violated', 'the apps are written to storage before they are updated from the response (the stored cohort / day values lag one check behind): %s' % sty, None, st)
                # install attempts: decided symbolically over the apps' actions (whatever the code looked at)
                i_f = ex.src.variant_index('Action', 'InstallPlanExecutionError')
                i_u = ex.src.variant_index('Action', 'Updated')
                dts = [ex.discr_of(st, ex.child(st, v, fidx(ex, 'AppResponse', 'result'), 'update_check::Action')).t
                       for v in vec_items(ex, st, ars, 'update_check::AppResponse')]
                failed = z3.Or([z3.BoolVal(False)] + [dt == i_f for dt in dts])
                updated = z3.Or([z3.BoolVal(False)] + [dt == i_u for dt in dts])
                ati = [r for r in reasons if r[0] == 'AttemptsToSuccessfulInstall']
                DI = Ds['install-attempt-outcome']
                if len(ati) > 1:
                    DI.failed = DI.failed or ('violated', 'install attempts reported %d times in one check' % len(ati), None, st)
                elif ati:
                    succ = payload(ex, st, ati[0][1], ex.src.variant_index('Metrics', 'AttemptsToSuccessfulInstall'), 1, 'bool')
                    DI.require(st, z3.And(z3.Or(failed, updated), succ.t == z3.Not(failed)),
                               'install attempts reported only when some app failed or was updated, successful iff no app failed')
                    fd = dval(ex, st, failed)
                    if fd is not None:
                        cover.add('install-failed' if fd == 1 else 'install-ok')
                else:
                    DI.require(st, z3.Not(z3.Or(failed, updated)), 'no install-attempt report only when no app failed or was updated')
            elif rd == 1:
                err = payload(ex, st, res_v, 1, 0, 'state_machine::UpdateCheckError')
                ek = variant_name(ex, 'UpdateCheckError', dval(ex, st, ex.discr_of(st, err).t))
                DA = Ds['app-set-updated-only-on-success']
                if ufo:
                    DA.failed = DA.failed or ('violated', 'app set updated after a failed check', None, st)
                fr = [r for r in reasons if r[0] == 'UpdateCheckFailureReason']
                if len(fr) != 1 or 'AttemptsToSuccessfulCheck' in rnames:
                    D.failed = D.failed or ('violated', 'failure metrics wrong: %s' % rnames, None, st)
                    continue
                reason = variant_name(ex, 'UpdateCheckFailureReason', dval(ex, st, ex.discr_of(st, payload(ex, st, fr[0][1], ex.src.variant_index('Metrics', 'UpdateCheckFailureReason'), 0, 'UpdateCheckFailureReason')).t))
                if ek in ('ResponseParser', 'InstallPlan'):
                    cover.add(ek)
                    if len(nows) != 1:
                        D.failed = D.failed or ('violated', 'clock read %d times' % len(nows), None, st)
                        continue
                    D.require(st, z3.And(cnt1.t == sat_inc, lut_is_now(ex, st, lut1, nows[0])), '%s: count+1, last contact now' % ek)
                    if reason != 'Omaha':
                        D.failed = D.failed or ('violated', '%s reported as %s' % (ek, reason), None, st)
                elif ek == 'OmahaRequest':
                    ore = payload(ex, st, err, 0, 0, 'state_machine::OmahaRequestError')
                    ok_ = ERRS[dval(ex, st, ex.discr_of(st, ore).t)] if dval(ex, st, ex.discr_of(st, ore).t) is not None else None
                    cover.add('req:%s' % ok_)
                    DD = Ds['forged-check-counts-as-failure'] if ok_ == 'CupValidation' else D
                    DD.require(st, z3.And(cnt1.t == sat_inc, opt_pct_eq(ex, st, lut1, lut0)), 'request error %s: count+1, last contact untouched' % ok_)
                    want = 'Network' if ok_ in ('HttpTransport', 'HttpStatus') else 'Internal'
                    if reason != want:
                        DD.failed = DD.failed or ('violated', 'request error %s reported as %s' % (ok_, reason), None, st)
                    if ok_ == 'CupValidation':
                        nforged += 1
                        if ufo or nows:
                            DD.failed = DD.failed or ('violated', 'forged response influenced the updater: %s' % sty, None, st)
                else:
                    D.failed = D.failed or ('inconclusive', 'error class undecided', None, st)
            else:
                D.failed = D.failed or ('inconclusive', 'result undecided', None, st)
                continue
            # final three yields + persist
            DF = Ds['final-announcements-and-persist']
            ys = [decode_yield(ex, st, e) for e in st.trace if e.kind == 'yield']
            yn = [y[0] for y in ys]
            if yn[-3:] != ['ScheduleChange', 'ProtocolStateChange', 'UpdateCheckResult'] or len(yn) != 3:
                DF.failed = DF.failed or ('violated', 'final announcements are %s' % yn, None, st)
                continue
            cur_ctx = ex.load(st, 'sm', [(smodels.sm_field_path(ex, ['context'])[0], None)])
            sched = ex.child(st, cur_ctx, 0, 'common::UpdateCheckSchedule')
            state = ex.child(st, cur_ctx, 1, 'common::ProtocolState')
            if not ex.veq(payload(ex, st, ys[0][2], 1, 0, None), sched) or not ex.veq(payload(ex, st, ys[1][2], 2, 0, None), state):
                DF.failed = DF.failed or ('violated', 'the final ScheduleChange/ProtocolStateChange do not carry the final context', None, st)
            rv = payload(ex, st, ys[2][2], 3, 0, None)
            # UpdateCheckResult(result): Ok(response) / Err(error) of this check
            rdd = ex.discr_of(st, rv).t
            DF.require(st, rdd == (0 if rd == 0 else 1), 'UpdateCheckResult carries the check\'s outcome')
            # ordering: the three yields precede the final persist
            idx_last_yield = max(i for i, e in enumerate(st.trace) if e.kind == 'yield')
            idx_persist = [i for i, e in enumerate(st.trace) if e.kind == 'model' and e.name == 'Context::persist']
            if not idx_persist or idx_persist[-1] < idx_last_yield:
                DF.failed = DF.failed or ('violated', 'context not persisted after the result was announced', None, st)
            persist_tail_ok(ex, st, names, DF, 'check')
            # return value
            ret = st.result
            if rd == 1:
                DF.require(st, ex.discr_of(st, ret).t == 1, 'no reboot after a failed check')
            else:
                tup = payload(ex, st, res_v, 0, 0, None)
                rb = ex.child(st, tup, 1, None)
                if not ex.veq(ret, rb):
                    DF.failed = DF.failed or ('violated', 'start_update_check does not return the check\'s reboot decision', None, st)
        chk.absorb(ex)
    chk.samples.append({'start_update_check_paths': samples})
    need = {'ok', 'ResponseParser', 'InstallPlan', 'req:CupValidation', 'req:HttpTransport', 'req:HttpStatus', 'req:Json', 'install-ok', 'install-failed'}
    if not need <= cover or nforged == 0:
        Ds['check-bookkeeping'].failed = Ds['check-bookkeeping'].failed or ('inconclusive', 'vacuous: classes not reached %s' % sorted(need - cover), None, None)
    for name, d in Ds.items():
        f = d.done()
        if f and f[0] == 'violated':
            d.ob.key = name
            st = f[3]
            d.ob.cex = {'path': story(d.ex, st) if st is not None else None}
            if f[2] is not None:
                d.ob.cex['model'] = dict((str(x), str(f[2][x])) for x in f[2].decls() if 'sm.8' in str(x))
    return Ds


def monitor_ping(chk, napps=1, nresp=1):
    o = chk.ob('ping-bookkeeping', 'a ping: exchange or parse failure -> failure count + 1 (saturating), nothing else changes, context+apps persisted and committed; success -> count 0, last contact = now, ScheduleChange announced, app set updated from the response (NoUpdate actions), then persisted and committed; exactly one exchange, no retry, fixed scheduled-task parameters')
    def shape(origin, ty):
        if 'response::App' in ty or origin.endswith('.v0.0.3'):
            return nresp
        if 'common::App' in ty:
            return napps
        raise Inconclusive('no shape for %s : %s' % (origin, ty))
    ex = make_sm_executor(chk, dict(unroll=5, env_assume=mk_assume('ping'), shape=shape, max_paths=20000), cuts=('persist', 'appset', 'do_omaha'))
    D = Decide(chk, ex, o, cross=False)
    fn = find_method(ex, 'StateMachine::ping_omaha')
    res = drive_async(ex, fn, [Ptr('sm'), Ptr('co')], State())
    cnt0, lut0 = ctx_terms(ex, State())
    cover = set()
    samples = []
    for st in res:
        if st.status != 'done':
            D.no_bad_status([st])
            continue
        names = [e.name.split('>::')[-1].split('::')[-1] if e.kind == 'env' else e.name for e in st.trace if e.kind in ('env', 'model')]
        sty = story(ex, st)
        samples.append(sty)
        oms = omaha_events(st)
        if len(oms) != 1:
            D.failed = D.failed or ('violated', 'a ping made %d exchanges: %s' % (len(oms), sty), None, st)
            continue
        ops = builder_ops(oms[0][1])
        new = op_named(ops, 'new')
        pv = new[0][2]
        pvv = pv[2] if isinstance(pv, tuple) else pv
        P = 'RequestParams'
        D.require(st, z3.And(ex.discr_of(st, ex.child(st, pvv, fidx(ex, P, 'source'), 'InstallSource')).t == ex.src.variant_index('InstallSource', 'ScheduledTask'),
                             ex.child(st, pvv, fidx(ex, P, 'disable_updates'), 'bool').t == False,
                             ex.child(st, pvv, fidx(ex, P, 'offer_update_if_same_version'), 'bool').t == False),
                  'ping parameters: scheduled task, updates not disabled, no same-version offer')
        if [o_[0] for o_ in ops if o_[0] in ('add_update_check', 'add_event')]:
            D.failed = D.failed or ('violated', 'a ping request carries more than pings: %s' % [o_[0] for o_ in ops], None, st)
        if len(op_named(ops, 'add_ping')) != napps:
            D.failed = D.failed or ('violated', 'ping request covers %d of %d apps' % (len(op_named(ops, 'add_ping')), napps), None, st)
        oc = omaha_outcome(ex, st, oms[0][1])
        cnt1, lut1 = ctx_terms(ex, st)
        sat_inc = z3.If(cnt0.t == 2 ** 32 - 1, cnt0.t, cnt0.t + 1)
        ufo = [e for e in st.trace if e.kind == 'env' and e.name == 'AppSetExt::update_from_omaha']
        ys = [decode_yield(ex, st, e)[0] for e in st.trace if e.kind == 'yield']
        pe = [e for e in st.trace if e.kind == 'env' and e.name == 'parse_json_response']
        parsed = None
        if pe:
            parsed = dval(ex, st, ex.discr_of(st, Tree({}, pe[0].out, None)).t) == 0
        if oc is None:
            D.failed = D.failed or ('inconclusive', 'exchange outcome undecided', None, st)
            continue
        # whatever the outcome, the ping itself leaves the server-dictated poll interval as the exchange left it
        left = st.extra.get(('spi_after_exchange', oms[0][1].out))
        if left is not None:
            import domaha
            spi_path = smodels.sm_field_path(ex, ['context', 'state', 'server_dictated_poll_interval'])
            D.require(st, domaha.opt_dur_eq(domaha.opt_dur_terms(ex, st, left), domaha.opt_dur_terms(ex, st, domaha.spi_of(ex, st, 'sm', spi_path))),
                      'the ping leaves the poll interval dictated by its own exchange in place')
        if oc[0] == 'Err' or parsed is False:
            cover.add('fail-exchange' if oc[0] == 'Err' else 'fail-parse')
            D.require(st, z3.And(cnt1.t == sat_inc, opt_pct_eq(ex, st, lut1, lut0)), 'failed ping: count+1, last contact untouched')
            if ufo or ys:
                D.failed = D.failed or ('violated', 'failed ping updated apps or announced something: %s' % sty, None, st)
        else:
            cover.add('ok')
            nows = [e for e in st.trace if e.kind == 'env' and e.name.endswith('TimeSource>::now')]
            # (an answer that names no app: updating the app set with nothing is a no-op, so the call may be absent)
            if len(nows) != 1 or ys != ['ScheduleChange'] or (len(ufo) != 1 and not (nresp == 0 and not ufo)):
                D.failed = D.failed or ('violated', 'successful ping flow wrong: %s' % sty, None, st)
                continue
            D.require(st, z3.And(cnt1.t == 0, lut_is_now(ex, st, lut1, nows[0])), 'successful ping: count 0, last contact now')
            if not ufo:
                persist_tail_ok(ex, st, names, D, 'ping')
                continue
            # app responses built from the response with NoUpdate
            a = ufo[0].args[1]
            av = a[2] if isinstance(a, tuple) else a
            items = vec_items(ex, st, av, 'update_check::AppResponse')
            if len(items) != nresp:
                D.failed = D.failed or ('violated', 'app set updated with %d responses, response had %d apps' % (len(items), nresp), None, st)
            for v in items:
                D.require(st, ex.discr_of(st, ex.child(st, v, fidx(ex, 'AppResponse', 'result'), 'update_check::Action')).t == 0, 'ping responses carry NoUpdate')
        persist_tail_ok(ex, st, names, D, 'ping')
    chk.samples.append({'ping_paths': samples[:6]})
    if not {'ok', 'fail-parse', 'fail-exchange'} <= cover:
        D.failed = D.failed or ('inconclusive', 'vacuous: %s' % sorted(cover), None, None)
    f = D.done()
    if f and f[0] == 'violated':
        o.key = o.name
        o.cex = {'path': story(ex, f[3]) if f[3] is not None else None}
    chk.absorb(ex)
    return D


def monitor_report(chk, napps=2):
    """report_omaha_event_and_update_context: one exchange, lost metric on failure, nothing else"""
    o = chk.ob('report-once', 'an event report makes exactly one exchange; on failure exactly one OmahaEventLost metric for the reported event and nothing else; it never retries')
    ex = make_sm_executor(chk, dict(unroll=6, env_assume=mk_assume('report'), max_paths=20000), cuts=('persist', 'appset', 'do_omaha'))
    D = Decide(chk, ex, o, cross=False)
    fn = find_method(ex, 'StateMachine::report_omaha_event_and_update_context')
    apps = mk_vec([Tree({}, 'app%d' % i, 'common::App') for i in range(napps)], 'Vec<common::App>')
    st0 = State()
    st0.cells['apps'] = apps
    nmap = 2
    st0.cells['nv'] = Tree(dict((j, Tree({0: Sc(z3.String('k%d' % j), 'str'), 1: Tree({}, 'nv%d' % j, 'std::option::Option<String>')}, None, None)) for j in range(nmap)), None,
                           'HashMap<String, Option<String>>', meta=('map', nmap))
    o2 = chk.ob('report-events-per-app', 'in a report every app of the list that has an entry in the offered-versions map gets exactly one event, whose next version is that app\'s own map value (present or absent) - never one left over from another app - and apps without an entry get none; two apps, two map entries with arbitrary keys')
    D2 = Decide(chk, ex, o2, cross=False)
    ev = Tree({}, 'event', 'protocol::request::Event')
    res = drive_async(ex, fn, [Ptr('sm'), Ptr('params'), ev, Ptr('apps'), Ptr('sid'), Ptr('nv'), Tree({}, 'dur', 'std::option::Option<std::time::Duration>'), Ptr('co')], st0)
    nfail = nok = 0
    for st in res:
        if st.status != 'done':
            D.no_bad_status([st])
            continue
        oms = omaha_events(st)
        if len(oms) != 1:
            D.failed = D.failed or ('violated', 'report made %d exchanges' % len(oms), None, st)
            continue
        oc = omaha_outcome(ex, st, oms[0][1])
        mets = [decode_metric(ex, st, e) for e in st.trace if e.kind == 'env' and e.name.endswith('report_metrics')]
        others = [e for e in st.trace if e.kind in ('env', 'model', 'yield') and e.name not in ('do_omaha_request', 'GUID::new') and not e.name.endswith('report_metrics')]
        if others:
            D.failed = D.failed or ('violated', 'report did more than one exchange: %s' % story(ex, st), None, st)
        # per-app events against the map
        from tailmon import report_events
        got = {}
        for av, evv in report_events(ex, st, oms[0][1]):
            m_ = re.match(r'^app(\d+)$', getattr(av, 'origin', '') or '')
            if not m_:
                D2.failed = D2.failed or ('inconclusive', 'event for an unidentified app %r' % (av,), None, st)
                continue
            got.setdefault(int(m_.group(1)), []).append(evv)
        for i in range(napps):
            idt = as_str(ex, st, ex.child(st, Tree({}, 'app%d' % i, 'common::App'), fidx(ex, 'common::App', 'id'), 'String')).t
            live = None
            undecided = False
            for j in range(nmap):
                eqj = dval(ex, st, z3.String('k%d' % j) == idt)
                if eqj is None:
                    undecided = True
                elif eqj == 1:
                    live = j
            if undecided:
                continue        # the code did not look this entry up on the path
            evs_i = got.get(i, [])
            if live is None:
                if evs_i:
                    D2.failed = D2.failed or ('violated', 'an event for app %d although it has no entry in the offered-versions map' % i, None, st)
                continue
            if len(evs_i) != 1:
                D2.failed = D2.failed or ('violated', '%d events for app %d, expected one' % (len(evs_i), i), None, st)
                continue
            nvv = ex.child(st, evs_i[0], fidx(ex, 'protocol::request::Event', 'next_version'), 'std::option::Option<String>')
            want = Tree({}, 'nv%d' % live, 'std::option::Option<String>')
            dn, dw = ex.discr_of(st, nvv).t, ex.discr_of(st, want).t
            D2.require(st, z3.And(dn == dw, z3.Implies(dn == 1, as_str(ex, st, payload(ex, st, nvv, 1, 0, 'String')).t == as_str(ex, st, payload(ex, st, want, 1, 0, 'String')).t)),
                       'next version of app %d\'s event == its own entry in the map' % i)
        if oc and oc[0] == 'Err':
            nfail += 1
            if [m[0] for m in mets] != ['OmahaEventLost']:
                D.failed = D.failed or ('violated', 'failed report metrics: %s' % [m[0] for m in mets], None, st)
            else:
                lost = payload(ex, st, mets[0][1], ex.src.variant_index('Metrics', 'OmahaEventLost'), 0, None)
                if not ex.veq(lost, ev):
                    D.failed = D.failed or ('violated', 'the lost-event metric does not carry the reported event', None, st)
        elif oc:
            nok += 1
            if mets:
                D.failed = D.failed or ('violated', 'delivered report produced metrics %s' % [m[0] for m in mets], None, st)
    if nfail == 0 or nok == 0:
        D.failed = D.failed or ('inconclusive', 'vacuous', None, None)
    f = D.done()
    if f and f[0] == 'violated':
        o.key = o.name
    f2 = D2.done()
    if f2 and f2[0] == 'violated':
        o2.key = o2.name
    chk.absorb(ex)
    return D
