#!/usr/bin/env python3
"""C11 — Every control request gets exactly one, truthful reply."""
import sys, os
sys.path.insert(0, os.path.dirname(os.path.abspath(__file__)))
from smbase import *
import runmon


def run(chk):
    if not chk.parallel(os.path.abspath(__file__), runmon.parts(chk.tier), post_merge=runmon.post_merge):
        runmon.monitor_run(chk, chk.tier)
    keep = ('one-truthful-reply', 'reboot-needs-consent', 'run-explored')
    chk.obligations = [o for o in chk.obligations if o.name in keep or o.name.startswith('part:')]
    chk.bounds.update({'run loop iterations': 2, 'control requests': '1 (quick) / 2 (thorough)', 'pending polls per future': 1})
    chk.assumptions += [
        'interleavings = every order in which the select! arms (timer, control channel, running check, reboot timers) may become ready, with each future allowed to be pending once and the arm polling order permuted; the real select!/Fuse/join code of the crate MIR is executed',
        'outside: that a request wakes a sleeping machine, dropped handles, StateMachineGone (futures::channel internals, see C13)',
        'start_update_check / ping_omaha are events that may stay pending while requests arrive',
    ]


if __name__ == '__main__':
    chk = Check('C11')
    try:
        run(chk)
    except Exception as e:          # nothing the engine cannot digest may look like a verdict: exit 2
        import traceback
        o = chk.ob('engine', 'executor could not interpret the code')
        o.status = 'inconclusive'
        o.detail = ('%s: %s' % (type(e).__name__, e)) if not isinstance(e, Inconclusive) else str(e)
        if not isinstance(e, Inconclusive):
            o.detail += ' | ' + ' <- '.join(l.strip() for l in traceback.format_exc().strip().split('\n')[-7:-1:2])
    sys.exit(chk.finish())
