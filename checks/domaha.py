"""Exploration of StateMachine::do_omaha_request_and_update_context (the single function through which
every HTTP exchange of the updater passes) and the monitors that C02 and C07 evaluate on its paths."""
from smbase import *
from models import dur_parts, NANOS
import smodels

SPI_TY = 'std::option::Option<std::time::Duration>'
T = z3.BoolVal(True)


class Explored:
    pass


def must(ex, st, cond):
    return ex.check(st, [z3.Not(cond)]) == 'unsat'


def may(ex, st, cond):
    return ex.check(st, [cond]) == 'sat'


def explore(chk, max_header_bytes):
    ex = make_sm_executor(chk, dict(unroll=6, max_header_bytes=max_header_bytes, trace_writes=True))
    fn = find_method(ex, 'StateMachine::do_omaha_request_and_update_context')
    st0 = State()
    res = drive_async(ex, fn, [Ptr('sm'), Ptr('builder'), Ptr('co')], st0)
    E = Explored()
    E.ex, E.paths = ex, res
    # the symbolic inputs (materialised lazily with deterministic names)
    sm = Tree({}, 'sm', 'StateMachine')
    E.spi_path = smodels.sm_field_path(ex, ['context', 'state', 'server_dictated_poll_interval'])
    E.handler_path = smodels.sm_field_path(ex, ['cup_handler'])
    return E


def spi_of(ex, st, root_cell='sm', path=None):
    tp = [(k, None) for k in path[:-1]] + [(path[-1], SPI_TY)]
    return ex.load(st, root_cell, tp)


def opt_dur_terms(ex, st, v):
    """(is_some Bool, secs, nanos) of an Option<Duration> value"""
    d = ex.discr_of(st, v, SPI_TY).t
    p = payload(ex, st, v, 1, 0, 'std::time::Duration')
    s, n = dur_parts(ex, st, p)
    return d == 1, s, n


def opt_dur_eq(a, b):
    return z3.And(a[0] == b[0], z3.Implies(a[0], z3.And(a[1] == b[1], a[2] == b[2])))


def header_spec(ex, st, get_event, nbytes):
    """independent statement of the X-Retry-After rule: (is_some, secs, nanos) from the header option"""
    hopt = Tree({}, get_event.out, 'std::option::Option<&http::HeaderValue>')
    present = ex.discr_of(st, hopt).t == 1
    hv = payload(ex, st, hopt, 1, 0, '&http::HeaderValue')
    ln, bs = smodels.hv_bytes(ex, st, hv)
    # visible ASCII only; "[+]digits" with at least one digit; value fits u64
    vis = z3.And(*[z3.Implies(i < ln, z3.Or(z3.And(b >= 32, b <= 126), b == 9)) for i, b in enumerate(bs)])
    plus = z3.And(ln > 0, bs[0] == ord('+'))
    first = z3.If(plus, 1, 0)
    alld = z3.And(*[z3.Implies(z3.And(i >= first, i < ln), z3.And(b >= ord('0'), b <= ord('9'))) for i, b in enumerate(bs)])
    val = z3.IntVal(0)
    for i, b in enumerate(bs):
        val = z3.If(z3.And(i >= first, i < ln), 10 * val + b - ord('0'), val)
    ok_ = z3.And(present, vis, ln > first, alld, val < 2 ** 64)
    secs = z3.If(val < 86400, val, 86400)
    return ok_, secs, z3.IntVal(0)


def classify(E, st):
    """what happened on this path, decided from the path condition"""
    ex = E.ex
    evs = [e for e in st.trace if e.kind in ('env', 'model', 'yield')]
    names = [e.name for e in evs]
    info = {'names': names, 'evs': evs}
    b = evs[0] if evs and evs[0].name == 'RequestBuilder::build' else None
    info['build'] = b
    if b is None:
        return info
    bres = Tree({}, b.out, None)
    info['build_ok'] = must(ex, st, ex.discr_of(st, bres).t == 0)
    handler = b.args[1]
    info['handler_some'] = must(ex, st, ex.discr_of(st, handler).t == 1)
    info['handler_none'] = must(ex, st, ex.discr_of(st, handler).t == 0)
    req = [e for e in evs if e.name.endswith('HttpRequest>::request')]
    info['request'] = req[0] if req else None
    if req:
        rres = Tree({}, req[0].out + '!out', None)
        info['http_ok'] = must(ex, st, ex.discr_of(st, rres).t == 0)
        info['http_err'] = must(ex, st, ex.discr_of(st, rres).t == 1)
    ver = [e for e in evs if e.name.endswith('::verify_response')]
    info['verify'] = ver
    if ver:
        vres = Tree({}, ver[0].out, None)
        info['verify_ok'] = must(ex, st, ex.discr_of(st, vres).t == 0)
        info['verify_err'] = must(ex, st, ex.discr_of(st, vres).t == 1)
    info['gets'] = [e for e in evs if e.name == 'HeaderMap::get']
    info['yields'] = [e for e in evs if e.kind == 'yield']
    info['persists'] = [e for e in evs if e.name == 'Context::persist']
    info['commits'] = [e for e in evs if e.name.endswith('Storage>::commit')]
    info['writes'] = [e for e in st.trace if e.kind == 'write' and e.name == 'sm']
    return info


def result_err_variant(ex, st, variant):
    """z3: the function's result is Err(OmahaRequestError::<variant>)"""
    r = st.result
    d = ex.discr_of(st, r).t
    e = payload(ex, st, r, 1, 0, 'state_machine::OmahaRequestError')
    ed = ex.discr_of(st, e).t
    return z3.And(d == 1, ed == ex.src.variant_index('OmahaRequestError', variant))


# ------------------------------------------------------------------ monitors

def monitor_frame(E, D):
    """of the in-memory context the exchange touches the poll interval only: failure counter and schedule are
    what they were (they belong to the caller, which assigns them once the outcome of the whole check is known)"""
    ex = E.ex
    import sutmon
    c0, l0 = sutmon.ctx_terms(ex, State())
    for st in E.paths:
        if st.status != 'done':
            continue
        c1, l1 = sutmon.ctx_terms(ex, st)
        D.require(st, z3.And(c1.t == c0.t, sutmon.opt_pct_eq(ex, st, l1, l0)), 'failure counter and last-contact time untouched by the exchange')


def monitor_handler_kept(E, D):
    """on every path of the exchange function the CUP handler configuration is left as found"""
    ex = E.ex
    hp = smodels.sm_field_path(ex, ['cup_handler'])
    ini = ex.load(State(), 'sm', [(k, None) for k in hp])
    for st in E.paths:
        if st.status != 'done':
            D.no_bad_status([st])
            continue
        D.nprops += 1
        if not ex.veq(ex.load(st, 'sm', [(k, None) for k in hp]), ini):
            D.failed = D.failed or ('violated', 'the exchange leaves the state machine with another CUP handler configuration than it found (path: %s)' % classify(E, st)['names'], None, st)


def monitor_c02(E, D):
    """C02 on the exchange function: verification is unconditional and first; a failed verification
    ends the exchange with CupValidation and touches nothing"""
    ex = E.ex
    n_verified = n_failed = 0
    for st in E.paths:
        if D.failed:
            return
        if st.status != 'done':
            D.no_bad_status([st])
            continue
        I_ = classify(E, st)
        names = I_['names']
        # whatever happens in the exchange, the handler configuration of the state machine is left as found
        # (every later request must be decorated and verified like this one)
        hp = smodels.sm_field_path(ex, ['cup_handler'])
        cur = ex.load(st, 'sm', [(k, None) for k in hp])
        ini = ex.load(State(), 'sm', [(k, None) for k in hp])
        if not ex.veq(cur, ini):
            D.failed = ('violated', 'the exchange leaves the state machine with another CUP handler configuration than it found (path: %s)' % names, None, st)
            return
        if not I_.get('build_ok') or not I_.get('request') or not I_.get('http_ok'):
            continue
        if I_['handler_some']:
            i = names.index(I_['request'].name)
            nxt = names[i + 1] if i + 1 < len(names) else None
            if nxt is None or not nxt.endswith('::verify_response'):
                D.failed = ('violated', 'a response was obtained with a CUP handler configured but the next action was %r, not verify_response (path: %s)' % (nxt, names), None, st)
                return
            if any(w for w in I_['writes'] if st.trace.index(w) < st.trace.index(I_['verify'][0])):
                D.failed = ('violated', 'context written before verification', None, st)
                return
            v = I_['verify'][0]
            # arguments: the metadata kept by build, the response just received, the metadata's key id
            md = v.args[1]
            resp = v.args[2]
            mdv0 = md[2] if isinstance(md, tuple) else None
            if not (isinstance(mdv0, Tree) and (mdv0.origin or '').startswith(I_['build'].out)):
                D.failed = ('violated', 'verify_response not given the metadata produced when the request was built', None, st)
                return
            rv0 = resp[2] if isinstance(resp, tuple) else None
            if not (isinstance(rv0, Tree) and (rv0.origin or '').startswith(I_['request'].out)):
                D.failed = ('violated', 'verify_response not given the received response', None, st)
                return
            keyid = v.args[3]
            mdv = md[2] if isinstance(md, tuple) else None
            if mdv is not None:
                kid = ex.child(st, mdv, ex.src.field_index('RequestMetadata', 'public_key_id'), 'u64')
                D.require(st, keyid.t == kid.t, 'verify_response is called with the key id stored in the request metadata')
            if I_.get('verify_err'):
                n_failed += 1
                after = names[names.index(v.name) + 1:]
                if after:
                    D.failed = ('violated', 'after a failed verification the exchange went on with %s' % after, None, st)
                    return
                if [w for w in I_['writes'] if st.trace.index(w) > st.trace.index(v)]:
                    D.failed = ('violated', 'context written after a failed verification', None, st)
                    return
                D.require(st, result_err_variant(ex, st, 'CupValidation'), 'failed verification returns Err(CupValidation)')
                # ... and the in-memory poll interval is what it was (also when the code moved it out and back)
                st0_ = State()
                D.require(st, opt_dur_eq(opt_dur_terms(ex, st0_, spi_of(ex, st0_, 'sm', E.spi_path)), opt_dur_terms(ex, st, spi_of(ex, st, 'sm', E.spi_path))),
                          'a failed verification leaves the server-dictated poll interval as it was')
            elif I_.get('verify_ok'):
                n_verified += 1
            else:
                D.failed = ('inconclusive', 'path does not decide the verification verdict', None, st)
        elif I_['handler_none']:
            if I_['verify']:
                D.failed = ('violated', 'verify_response called without a handler', None, st)
                return
        else:
            D.failed = ('inconclusive', 'path does not decide whether a handler is configured', None, st)
    D.extra = {'paths_with_verified_response': n_verified, 'paths_with_failed_verification': n_failed}
    if n_failed == 0 or n_verified == 0:
        D.failed = D.failed or ('inconclusive', 'vacuous: no path with (failed=%d, ok=%d) verification' % (n_failed, n_verified), None, None)


def monitor_c07(E, D_rule, D_order, D_noresp):
    """C07: value rule, announce/persist/commit ordering, and no-response exchanges leave it unchanged"""
    ex = E.ex
    nresp = nchanged = nsame = nnoresp = 0
    for st in E.paths:
        if st.status != 'done':
            D_rule.no_bad_status([st])
            continue
        I_ = classify(E, st)
        names = I_['names']
        st0 = State()   # initial values are read from the lazily named inputs
        old = opt_dur_terms(ex, st0, spi_of(ex, st0, 'sm', E.spi_path))
        new = opt_dur_terms(ex, st, spi_of(ex, st, 'sm', E.spi_path))
        got_response = I_.get('build_ok') and I_.get('http_ok') and (I_.get('handler_none') or I_.get('verify_ok'))
        if not got_response:
            nnoresp += 1
            D_noresp.require(st, opt_dur_eq(old, new), 'exchange without an authenticated response leaves the poll interval unchanged')
            if I_['yields'] or I_['persists'] or I_['commits'] or I_['gets']:
                D_noresp.failed = D_noresp.failed or ('violated', 'exchange without a response announced/persisted something: %s' % names, None, st)
            variant = None
            if not I_.get('build_ok'):
                pass
            elif I_.get('http_err'):
                variant = 'HttpTransport'
            elif I_.get('verify_err'):
                variant = 'CupValidation'
            if variant:
                D_noresp.require(st, result_err_variant(ex, st, variant), 'error class ' + variant)
            continue
        nresp += 1
        if len(I_['gets']) != 1:
            D_rule.failed = D_rule.failed or ('violated', 'header looked up %d times' % len(I_['gets']), None, st)
            continue
        g = I_['gets'][0]
        hname = g.args[1]
        D_rule.require(st, hname.t == z3.StringVal('X-Retry-After'), 'the header consulted is X-Retry-After')
        spec = header_spec(ex, st, g, ex.cfg['max_header_bytes'])
        D_rule.require(st, opt_dur_eq(new, spec), 'poll interval after the exchange == min(N, 86400) s iff header is a plain decimal u64, else absent')
        # status does not matter for the rule (the same formula holds on every path); result mapping:
        parts = Tree({}, I_['request'].out + '!out.v0.0.parts', 'http::response::Parts')
        code = ex.child(st, ex.child(st, parts, 0, 'http::StatusCode'), 0, 'u16').t
        succ = z3.And(code >= 200, code < 300)
        rd = ex.discr_of(st, st.result).t
        D_rule.require(st, z3.If(succ, rd == 0, result_err_variant(ex, st, 'HttpStatus')), 'Ok iff 2xx, else Err(HttpStatus)')
        # ordering
        after = names[names.index('HeaderMap::get') + 1:]
        if I_['yields']:
            nchanged += 1
            D_order.require(st, z3.Not(opt_dur_eq(old, spec)), 'announce/persist only when the value changed')
            want = ['yield', 'Context::persist']
            if after[:2] != want or len(after) != 3 or not after[2].endswith('Storage>::commit'):
                D_order.failed = D_order.failed or ('violated', 'a change must be followed by announce, persist, commit in this order; saw %s' % after, None, st)
                continue
            y = I_['yields'][0].args[0]
            yd = ex.discr_of(st, y).t
            ps = payload(ex, st, y, 2, 0, 'common::ProtocolState')
            ysp = opt_dur_terms(ex, st, ex.child(st, ps, E.spi_path[-1], SPI_TY))
            D_order.require(st, z3.And(yd == 2, opt_dur_eq(ysp, spec)), 'the announced protocol state carries the new poll interval')
            ctx = I_['persists'][0].args[0]
            ctxv = ctx[2] if isinstance(ctx, tuple) else ctx
            cst = ex.child(st, ctxv, E.spi_path[-2], 'common::ProtocolState')
            csp = opt_dur_terms(ex, st, ex.child(st, cst, E.spi_path[-1], SPI_TY))
            D_order.require(st, opt_dur_eq(csp, spec), 'the persisted context carries the new poll interval')
        else:
            nsame += 1
            D_order.require(st, opt_dur_eq(old, spec), 'no announcement only when the value is unchanged')
            if after:
                D_order.failed = D_order.failed or ('violated', 'unchanged value but further actions: %s' % after, None, st)
    D_rule.extra = {'paths_with_response': nresp}
    D_order.extra = {'changed': nchanged, 'unchanged': nsame}
    D_noresp.extra = {'paths_without_response': nnoresp}
    if nresp == 0 or nchanged == 0 or nsame == 0 or nnoresp == 0:
        D_rule.failed = D_rule.failed or ('inconclusive', 'vacuous exploration (%d,%d,%d,%d)' % (nresp, nchanged, nsame, nnoresp), None, None)
