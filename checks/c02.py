#!/usr/bin/env python3
"""C02 — Unauthenticated responses never influence the updater."""
import sys, os
sys.path.insert(0, os.path.dirname(os.path.abspath(__file__)))
from smbase import *
import domaha


def run(chk):
    E = domaha.explore(chk, 4)
    ex = E.ex
    o = chk.ob('exchange-verifies-first', 'in the one function every HTTP exchange goes through: with a handler configured the first thing done with a received response, for every status, is verify_response(on the metadata built for this request, this response, the metadata key id); on failure the exchange returns Err(CupValidation) with no header read, no context write, no announcement, no storage traffic')
    D = Decide(chk, ex, o, cross=False)
    domaha.monitor_c02(E, D)
    f = D.done()
    if f and f[0] == 'violated':
        o.key = o.name
        st = f[3]
        o.cex = {'path': domaha.classify(E, st)['names'] if st is not None else None,
                 'path_condition': [str(z3.simplify(c))[:200] for c in (st.pc if st is not None else [])][:12]}
    chk.samples.append({'exchange_paths': [domaha.classify(E, s)['names'] for s in E.paths if s.status == 'done'][:12]})
    chk.extra.update(getattr(D, 'extra', {}))
    chk.absorb(ex)
    import callers, sutmon
    callers.monitor_attempt_loop(chk, chk.tier)
    sutmon.monitor_start_update_check(chk, (1,))
    sutmon.monitor_ping(chk, 1, 1)
    sutmon.monitor_report(chk, 2)
    import c03
    c03.build_with_handler(chk)       # the guarantee side of the build() contract the exchange exploration assumes
    c03.builder_setters(chk)          # "when a CUP handler is configured": the one given to the builder is the one in use
    keep = ('exchange-verifies-first', 'no-retry-after-forgery', 'forged-check-counts-as-failure', 'ping-bookkeeping', 'report-once', 'build-decorates-what-it-sends', 'builder-keeps-components')
    chk.obligations = [o for o in chk.obligations if o.name in keep]
    chk.bounds['paths'] = 'all paths of do_omaha_request_and_update_context (no loops); header value <= 4 bytes (irrelevant to this property)'
    chk.assumptions += [
        'logging is off; in the exchange exploration RequestBuilder::build is abstract with contract "metadata is Some iff a handler was given", which the build-decorates-what-it-sends obligation establishes on the real build() for every builder content (update check, ping only, event only, empty)',
        'replay resistance end to end follows from C01 (nonce in the signed digest) and C03 (fresh nonce per request), not re-proved here',
    ]


if __name__ == '__main__':
    chk = Check('C02')
    try:
        run(chk)
    except Exception as e:          # nothing the engine cannot digest may look like a verdict: exit 2
        import traceback
        o = chk.ob('engine', 'executor could not interpret the code')
        o.status = 'inconclusive'
        o.detail = ('%s: %s' % (type(e).__name__, e)) if not isinstance(e, Inconclusive) else str(e)
        if not isinstance(e, Inconclusive):
            o.detail += ' | ' + ' <- '.join(l.strip() for l in traceback.format_exc().strip().split('\n')[-7:-1:2])
    sys.exit(chk.finish())
