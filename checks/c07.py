#!/usr/bin/env python3
"""C07 — Server-dictated poll interval (X-Retry-After) is honoured."""
import sys, os
sys.path.insert(0, os.path.dirname(os.path.abspath(__file__)))
from smbase import *
import domaha
from domaha import must, may, opt_dur_terms, opt_dur_eq
from models import dur_parts, time_parts, NANOS
import smodels

I64_MAX = (1 << 63) - 1


def run(chk):
    nbytes = 21 if chk.tier == 'quick' else 24
    chk.bounds['header_value_bytes'] = '0..=%d symbolic bytes' % nbytes
    E = domaha.explore(chk, nbytes)
    ex = E.ex
    o1 = chk.ob('header-rule', 'after every authenticated response, for every status and all header byte strings within the bound: interval == min(N,86400)s iff the value is a plain decimal u64, else absent; Ok iff 2xx')
    o2 = chk.ob('announce-persist-commit', 'a changed interval is announced (ProtocolStateChange with the new value), persisted (context with the new value) and committed, in this order, before the exchange returns; an unchanged one causes no event and no storage traffic')
    o3 = chk.ob('no-response-unchanged', 'construction, transport and authentication failures leave the interval unchanged and announce/persist nothing')
    o4 = chk.ob('exchange-frame', 'of the in-memory context the exchange changes the poll interval only: the failure counter and the last-contact time are untouched on every path (so the context it persists when the interval changes carries the bookkeeping of the last completed check)')
    D1, D2, D3, D4 = Decide(chk, ex, o1), Decide(chk, ex, o2, cross=False), Decide(chk, ex, o3, cross=False), Decide(chk, ex, o4, cross=False)
    domaha.monitor_c07(E, D1, D2, D3)
    domaha.monitor_frame(E, D4)
    for D in (D1, D2, D3, D4):
        f = D.done()
        if f and f[0] == 'violated':
            describe_cex(ex, D, f, E)
    chk.samples.append({'exchange_paths': [domaha.classify(E, s)['names'] for s in E.paths if s.status == 'done'][:12]})
    chk.absorb(ex)
    persist_load(chk)
    # the callers of the exchange function leave the interval it dictated in place (ping; the check flows assign
    # only the counter and the times: C08)
    import sutmon
    n0 = len(chk.obligations)
    sutmon.monitor_ping(chk, 1, 1)
    chk.obligations = chk.obligations[:n0] + [o for o in chk.obligations[n0:] if o.name == 'ping-bookkeeping']
    chk.assumptions += [
        'logging is off (tracing Level <= LevelFilter modelled false)',
        'RequestBuilder::build is an abstract event with the contract "metadata is Some iff a handler was given" (checked by C03 on build itself)',
        'Context::persist is one event inside the exchange exploration; its own body is explored from an arbitrary context below',
        'HeaderValue::to_str = all bytes visible ASCII or tab; str::parse::<uN> = Rust FromStr grammar ([+]digits, no overflow); HeaderMap::get returns the looked-up header (first value)',
        'environment futures are ready when polled',
    ]


def describe_cex(ex, D, f, E):
    kind, what, m, st = f
    o = D.ob
    o.key = o.name
    if st is not None:
        o.cex = {'path': domaha.classify(E, st)['names']}
        if m is not None:
            vals = {}
            for d in m.decls():
                n = d.name()
                if '.b' in n or n.endswith('.len') or n.endswith('discr') or n.startswith('sm.8'):
                    vals[n] = str(m[d])
            o.cex['model'] = vals
    o.replayed = 'path-level counterexample on the real MIR (solver model above); native replay: see replay harness'


def persist_load(chk):
    """Context::persist / Context::load from an arbitrary context / arbitrary stored values"""
    ex = make_sm_executor(chk, dict(unroll=6), cuts=('appset',))
    K_LUT, K_SPI, K_CNT = 'last_update_time', 'server_dictated_poll_interval', 'consecutive_failed_update_checks'
    o = chk.ob('persist-encoding', 'Context::persist writes exactly the three keys, each as set_int(micros / count) when representable and non-default, else remove; regardless of storage errors')
    D = Decide(chk, ex, o, cross=False)
    fn = find_method(ex, 'Context::persist')
    st0 = State()
    res = drive_async(ex, fn, [Ptr('ctx'), Ptr('storage')], st0)
    D.no_bad_status(res)
    ctx = Tree({}, 'ctx', 'update_check::Context')
    sched = ex.child(st0, ctx, 0, 'common::UpdateCheckSchedule')
    state = ex.child(st0, ctx, 1, 'common::ProtocolState')
    lut = ex.child(st0, sched, ex.src.field_index('UpdateCheckSchedule', 'last_update_time'), 'std::option::Option<time::PartialComplexTime>')
    spi = ex.child(st0, state, ex.src.field_index('ProtocolState', 'server_dictated_poll_interval'), domaha.SPI_TY)
    cnt = ex.child(st0, state, ex.src.field_index('ProtocolState', 'consecutive_failed_update_checks'), 'u32')
    # spec values
    lut_some = ex.discr_of(st0, lut).t == 1
    pct = payload(ex, st0, lut, 1, 0, 'time::PartialComplexTime')
    pd = ex.discr_of(st0, pct).t
    w0 = payload(ex, st0, pct, 0, 0, 'std::time::SystemTime')
    c2 = payload(ex, st0, pct, 2, 0, 'time::ComplexTime')
    cw = ex.child(st0, c2, 0, 'std::time::SystemTime')
    s0, n0 = time_parts(ex, st0, w0)
    s2, n2 = time_parts(ex, st0, cw)
    wsec = z3.If(pd == 0, s0, s2)
    wns = z3.If(pd == 0, n0, n2)
    total = wsec * NANOS + wns
    us = z3.If(total >= 0, ex.idiv(total, 1000), -ex.idiv(-total, 1000))
    lut_val_ok = z3.And(lut_some, pd != 1, us >= -(1 << 63), us <= I64_MAX)
    sp_some, sp_s, sp_n = opt_dur_terms(ex, st0, spi)
    sp_us = sp_s * 1000000 + ex.idiv(sp_n, 1000)
    spi_ok = z3.And(sp_some, sp_us <= I64_MAX)
    specs = [(K_LUT, lut_val_ok, us), (K_SPI, spi_ok, sp_us), (K_CNT, cnt.t != 0, cnt.t)]
    npaths = 0
    for st in res:
        if st.status != 'done':
            continue
        npaths += 1
        ops = [e for e in st.trace if e.kind == 'env']
        if len(ops) != 3:
            D.failed = D.failed or ('violated', 'persist performed %d storage operations: %s' % (len(ops), [e.name for e in ops]), None, st)
            continue
        for e, (key, present, val) in zip(ops, specs):
            kk = e.args[1]
            if e.name.endswith('::set_int'):
                D.require(st, z3.And(kk.t == z3.StringVal(key), present, e.args[2].t == val), 'set_int(%s, value) only when present, with the spec value' % key)
            elif e.name.endswith('::remove'):
                D.require(st, z3.And(kk.t == z3.StringVal(key), z3.Not(present)), 'remove(%s) only when absent/default/unrepresentable' % key)
            else:
                D.failed = D.failed or ('violated', 'unexpected storage call %s' % e.name, None, st)
    o_extra = {'paths': npaths}
    f = D.done()
    if f and f[0] == 'violated':
        o.key = o.name
        o.cex = {'path': [e.name for e in f[3].trace if e.kind == 'env']} if f[3] is not None else None

    o = chk.ob('load-decoding', 'Context::load maps any stored integers (absent, negative, out of range) to a valid context without panicking: time = Wall(from_micros), interval = Some(micros) iff >= 0, counter = value iff it fits u32 else 0')
    D = Decide(chk, ex, o, cross=False)
    fn = find_method(ex, 'Context::load')
    st0 = State()
    res = drive_async(ex, fn, [Ptr('storage')], st0)
    D.no_bad_status(res)
    for st in res:
        if st.status != 'done':
            continue
        gets = [e for e in st.trace if e.kind == 'env']
        if [e.name.split('::')[-1] for e in gets] != ['get_int', 'get_int', 'get_int']:
            D.failed = D.failed or ('violated', 'load performed %s' % [e.name for e in gets], None, st)
            continue
        keys = [e.args[1] for e in gets]
        for kk, want in zip(keys, (K_LUT, K_SPI, K_CNT)):
            D.require(st, kk.t == z3.StringVal(want), 'load reads key ' + want)
        vals = [Tree({}, e.out + '!out', 'std::option::Option<i64>') for e in gets]
        r = st.result
        rs = ex.child(st, r, 0, 'common::UpdateCheckSchedule')
        rst = ex.child(st, r, 1, 'common::ProtocolState')
        for fld in ('last_update_time', 'last_update_check_time'):
            rl = ex.child(st, rs, ex.src.field_index('UpdateCheckSchedule', fld), 'std::option::Option<time::PartialComplexTime>')
            v0d = ex.discr_of(st, vals[0]).t
            v0 = payload(ex, st, vals[0], 1, 0, 'i64').t
            q, rr = ex.divmod_const(v0 * 1000, NANOS)
            rld = ex.discr_of(st, rl).t
            rp = payload(ex, st, rl, 1, 0, 'time::PartialComplexTime')
            rpd = ex.discr_of(st, rp).t
            rw = payload(ex, st, rp, 0, 0, 'std::time::SystemTime')
            ws, wn = time_parts(ex, st, rw)
            D.require(st, z3.If(v0d == 1, z3.And(rld == 1, rpd == 0, ws == q, wn == rr), rld == 0), 'loaded %s' % fld)
        rspi = ex.child(st, rst, ex.src.field_index('ProtocolState', 'server_dictated_poll_interval'), domaha.SPI_TY)
        v1d = ex.discr_of(st, vals[1]).t
        v1 = payload(ex, st, vals[1], 1, 0, 'i64').t
        some_, ss, nn = opt_dur_terms(ex, st, rspi)
        q1, r1 = ex.divmod_const(v1, 1000000)
        D.require(st, z3.If(z3.And(v1d == 1, v1 >= 0), z3.And(some_, ss == q1, nn == r1 * 1000), z3.Not(some_)), 'loaded poll interval')
        rc = ex.child(st, rst, ex.src.field_index('ProtocolState', 'consecutive_failed_update_checks'), 'u32')
        v2d = ex.discr_of(st, vals[2]).t
        v2 = payload(ex, st, vals[2], 1, 0, 'i64').t
        D.require(st, rc.t == z3.If(z3.And(v2d == 1, v2 >= 0, v2 <= 2 ** 32 - 1), v2, 0), 'loaded failure counter')
        rp_ = ex.child(st, rst, ex.src.field_index('ProtocolState', 'consecutive_proxied_requests'), 'u32')
        D.require(st, rp_.t == 0, 'other protocol fields default')
    f = D.done()
    if f and f[0] == 'violated':
        o.key = o.name
    chk.absorb(ex)


if __name__ == '__main__':
    chk = Check('C07')
    try:
        run(chk)
    except Exception as e:          # nothing the engine cannot digest may look like a verdict: exit 2
        import traceback
        o = chk.ob('engine', 'executor could not interpret the code')
        o.status = 'inconclusive'
        o.detail = ('%s: %s' % (type(e).__name__, e)) if not isinstance(e, Inconclusive) else str(e)
        if not isinstance(e, Inconclusive):
            o.detail += ' | ' + ' <- '.join(l.strip() for l in traceback.format_exc().strip().split('\n')[-7:-1:2])
    sys.exit(chk.finish())
