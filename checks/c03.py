#!/usr/bin/env python3
"""C03 — Every CUP request is freshly and faithfully decorated."""
import sys, os
sys.path.insert(0, os.path.dirname(os.path.abspath(__file__)))
from smbase import *
from smodels import as_str, env_event
from callers import dval, variant_name
from tailmon import fidx
import smodels, c15, callers


def sv(a):
    while isinstance(a, tuple) and a and a[0] == 'ref':
        a = a[2]
    return a


def decorate(chk):
    o = chk.ob('decorate-request', 'StandardCupv2Handler::decorate_request draws exactly one fresh nonce, appends exactly one parameter cup2key = format(latest key id, that nonce) to the parsed request URI, writes the result back, and returns metadata holding the serialised body obtained from the same request after the URI was set, the latest key id and the same nonce; failures map to ParseError / AppendQueryParameterError / SerializationError')
    ex = c15.real_builder_executor(chk)
    D = Decide(chk, ex, o, cross=False)

    def ev(name):
        return lambda ex_, st, args, dty, canon: env_event(ex_, st, name, tuple(ex_.snapshot(st, a) for a in args), dty)
    for rx, nm in ((r'^(cup_ecdsa::)?Nonce::new$', 'Nonce::new'), (r'<impl str>::parse::<(http::)?(uri::)?Uri>$', 'Uri::parse'),
                   (r'as (http_uri_ext::)?HttpUriExt>::append_query_parameter$', 'append_query_parameter')):
        ex.model_patterns.insert(0, (re.compile(rx), ev(nm)))
    fn = find_method(ex, '<StandardCupv2Handler as Cupv2RequestHandler>::decorate_request')
    st0 = State()
    res = ex.run_fn(fn, [Ptr('handler'), Ptr('request')], st0)
    D.no_bad_status(res)
    handler = Tree({}, 'handler', 'cup_ecdsa::StandardCupv2Handler')
    latest = ex.child(st0, handler, fidx(ex, 'cup_ecdsa::StandardCupv2Handler', 'latest_public_key_id'), 'u64')
    cover = set()
    for st in res:
        if st.status != 'done':
            continue
        evs = [e for e in st.trace if e.kind == 'env']
        names = [e.name.split('>::')[-1] for e in evs]
        def bad(msg):
            D.failed = D.failed or ('violated', '%s [events %s]' % (msg, names), None, st)
        if names[:3] != ['Nonce::new', 'get_uri', 'Uri::parse'] or names.count('Nonce::new') != 1:
            bad('does not start with one fresh nonce, the request URI and its parsing')
            continue
        nonce_name = evs[0].out
        if getattr(sv(evs[2].args[0]), 'origin', None) != evs[1].out and not ex.veq(sv(evs[2].args[0]), Tree({}, evs[1].out, None)):
            pass
        r = st.result
        rd = dval(ex, st, ex.discr_of(st, r).t)
        parsed = dval(ex, st, ex.discr_of(st, Tree({}, evs[2].out, None)).t)
        if parsed == 1:
            cover.add('parse-error')
            if len(evs) != 3 or rd != 1:
                bad('after an unparsable URI the decoration went on')
            else:
                e = payload(ex, st, r, 1, 0, 'cup_ecdsa::CupDecorationError')
                D.require(st, ex.discr_of(st, e).t == ex.src.variant_index('CupDecorationError', 'ParseError'), 'unparsable URI -> ParseError')
            continue
        if names[3:4] != ['append_query_parameter']:
            bad('the query parameter is not appended')
            continue
        ap = evs[3]
        D.require(st, as_str(ex, st, sv(ap.args[1])).t == z3.StringVal('cup2key'), 'parameter name is cup2key')
        val = sv(ap.args[2])
        fmtinfo = st.extra.get(('fmt', str(val.t))) if isinstance(val, Sc) else None
        if fmtinfo is None:
            bad('the parameter value is not a freshly formatted string')
            continue
        fargs = fmtinfo.f[1]
        items = [fargs.f[i] for i in sorted(k for k in fargs.f if isinstance(k, int))] if isinstance(fargs, Tree) else []
        if len(items) != 2:
            bad('cup2key value formatted from %d arguments, expected key id and nonce' % len(items))
            continue
        a0, a1 = sv(items[0].f[0]), sv(items[1].f[0])
        if not (isinstance(a0, Sc) and a0.ty == 'u64'):
            bad('first cup2key component is not the key id')
            continue
        D.require(st, a0.t == latest.t, 'cup2key names the latest public key id')
        if getattr(a1, 'origin', None) != nonce_name:
            bad('second cup2key component is not the fresh nonce')
            continue
        tmpl = fmtinfo.f[0]
        tb = [z3.simplify(x.t).as_long() for x in tmpl.data] if isinstance(tmpl, Obj) and tmpl.kind == 'bytes' else None
        if tb is None or tb.count(ord(':')) != 1 or any(32 < b < 127 and b != ord(':') for b in tb[1:-1] if b not in (0xc0,)):
            bad('cup2key template is not "<id>:<nonce>" (template bytes %s)' % tb)
            continue
        if not ex.veq(sv(ap.args[0]), payload(ex, st, Tree({}, evs[2].out, None), 0, 0, None)):
            bad('the parameter is not appended to the parsed request URI')
            continue
        app_ok = dval(ex, st, ex.discr_of(st, Tree({}, ap.out, None)).t)
        if app_ok == 1:
            cover.add('append-error')
            if len(evs) != 4 or rd != 1:
                bad('after a failed append the decoration went on')
            else:
                e = payload(ex, st, r, 1, 0, 'cup_ecdsa::CupDecorationError')
                D.require(st, ex.discr_of(st, e).t == ex.src.variant_index('CupDecorationError', 'AppendQueryParameterError'), 'append failure -> AppendQueryParameterError')
            continue
        if names[4:] != ['set_uri', 'get_serialized_body']:
            bad('after appending: %s' % names[4:])
            continue
        newuri = payload(ex, st, Tree({}, ap.out, None), 0, 0, None)
        if not ex.veq(smodels.deref_all(ex, st, sv(evs[4].args[1])), newuri):
            bad('the URI written back is not the decorated one')
            continue
        body = Tree({}, evs[5].out, None)
        bok = dval(ex, st, ex.discr_of(st, body).t)
        if bok == 1:
            cover.add('body-error')
            e = payload(ex, st, r, 1, 0, 'cup_ecdsa::CupDecorationError')
            D.require(st, z3.And(ex.discr_of(st, r).t == 1, ex.discr_of(st, e).t == ex.src.variant_index('CupDecorationError', 'SerializationError')), 'serialisation failure -> SerializationError')
            continue
        cover.add('ok')
        if rd != 0:
            bad('decoration failed although every step succeeded')
            continue
        md = payload(ex, st, r, 0, 0, 'cup_ecdsa::RequestMetadata')
        M = 'cup_ecdsa::RequestMetadata'
        D.require(st, ex.child(st, md, fidx(ex, M, 'public_key_id'), 'u64').t == latest.t, 'metadata key id == latest key id')
        if getattr(ex.child(st, md, fidx(ex, M, 'nonce'), None), 'origin', None) != nonce_name:
            bad('metadata does not hold the nonce that was sent')
        if not ex.veq(ex.child(st, md, fidx(ex, M, 'request_body'), None), payload(ex, st, body, 0, 0, None)):
            bad('metadata body is not the serialised body of the request')
    if cover != {'ok', 'parse-error', 'append-error', 'body-error'}:
        D.failed = D.failed or ('inconclusive', 'vacuous: %s' % sorted(cover), None, None)
    f = D.done()
    if f and f[0] == 'violated':
        o.key = o.name
    chk.absorb(ex)


def build_with_handler(chk):
    o = chk.ob('build-decorates-what-it-sends', 'RequestBuilder::build: metadata is Some exactly when a handler is given and is the handler\'s; the Intermediate handed to the handler starts at the configured service URL and is the very one converted into the HTTP request (its decorated URI is the request URI, its body is serialised for the wire, nothing is altered in between); a decoration error aborts the build')
    ex = c15.real_builder_executor(chk)
    D = Decide(chk, ex, o, cross=False)

    def ev(name):
        return lambda ex_, st, args, dty, canon: env_event(ex_, st, name, tuple(ex_.snapshot(st, a) for a in args), dty)
    for rx, nm in ((r'Request::<.*>::post', 'Request::post'), (r'Builder::header::<', 'Builder::header'), (r'Builder::body::<', 'Builder::body'), (r'^serde_json::to_vec::<', 'serde_json::to_vec')):
        ex.model_patterns.insert(0, (re.compile(rx), ev(nm)))

    def effect(ex_, st, key, args, nm):
        if key.endswith('::decorate_request'):
            p = args[1]
            I_ = 'request_builder::Intermediate'
            ex_.store(st, p.cell, [(k, None) for k in p.path] + [(fidx(ex_, I_, 'uri'), 'String')], Sc(z3.String(nm + '.uri'), 'str'))
    ex.cfg['env_effect'] = effect
    fns = dict((n, find_method(ex, 'RequestBuilder::' + n)) for n in ('new', 'add_update_check', 'build'))
    st0 = State()
    st0.cells['a0'] = Tree({}, 'app0', 'common::App')
    res = ex.run_fn(fns['new'], [Ptr('config'), Ptr('params')], st0)
    cur = []
    for s in res:
        s.status = 'running'
        cur += ex.run_fn(fns['add_update_check'], [s.result, Ptr('a0')], s)
    handler_opt = Tree({}, 'hopt', 'std::option::Option<&CH>')
    outs = []
    for s in cur:
        if s.status != 'done':
            D.no_bad_status([s])
            continue
        s.status = 'running'
        s.cells['b'] = s.result
        outs += ex.run_fn(fns['build'], [Ptr('b'), handler_opt], s)
    D.no_bad_status(outs)
    cover = set()
    config = Tree({}, 'config', 'configuration::Config')
    for st in outs:
        if st.status != 'done':
            continue
        evs = [e for e in st.trace if e.kind == 'env']
        names = [e.name.split('>::')[-1] for e in evs]
        def bad(msg):
            D.failed = D.failed or ('violated', '%s [events %s]' % (msg, names), None, st)
        has_h = dval(ex, st, ex.discr_of(st, handler_opt).t)
        dec = [e for e in evs if e.name.endswith('::decorate_request')]
        r = st.result
        rd = dval(ex, st, ex.discr_of(st, r).t)
        if has_h == 0:
            cover.add('no-handler')
            if dec:
                bad('decorated without a handler')
            if rd == 0:
                md = ex.child(st, payload(ex, st, r, 0, 0, None), 1, None)
                D.require(st, ex.discr_of(st, md).t == 0, 'no metadata without a handler')
            post = [e for e in evs if e.name == 'Request::post']
            if post:
                D.require(st, as_str(ex, st, sv(post[0].args[0])).t == as_str(ex, st, ex.child(st, config, fidx(ex, 'configuration::Config', 'service_url'), 'String')).t, 'undecorated request goes to the service URL')
            continue
        if len(dec) != 1:
            bad('decorate_request called %d times' % len(dec))
            continue
        inter_at_call = sv(dec[0].args[1])
        I_ = 'request_builder::Intermediate'
        D.require(st, as_str(ex, st, ex.child(st, inter_at_call, fidx(ex, I_, 'uri'), 'String')).t == as_str(ex, st, ex.child(st, config, fidx(ex, 'configuration::Config', 'service_url'), 'String')).t,
                  'the request handed to the handler targets the configured service URL')
        dres = Tree({}, dec[0].out, None)
        dok = dval(ex, st, ex.discr_of(st, dres).t)
        if dok == 1:
            cover.add('decoration-error')
            if rd != 1 or [n for n in names if n in ('Request::post', 'Builder::body')]:
                bad('a decoration error did not abort the build')
            else:
                e = payload(ex, st, r, 1, 0, 'request_builder::Error')
                D.require(st, ex.discr_of(st, e).t == ex.src.variant_index('Error', 'Cup') if ex.src.by_mod.get(('enum', 'request_builder', 'Error')) is None
                          else ex.discr_of(st, e).t == ex.src.by_mod[('enum', 'request_builder', 'Error')].index('Cup'), 'decoration error -> Error::Cup')
            continue
        post = [e for e in evs if e.name == 'Request::post']
        ser = [e for e in evs if e.name == 'serde_json::to_vec']
        if len(post) != 1 or len(ser) != 1:
            bad('request assembly incomplete')
            continue
        D.require(st, as_str(ex, st, sv(post[0].args[0])).t == z3.String(dec[0].out + '.uri'), 'the request URI is the decorated URI')
        b_wire = sv(ser[0].args[0])
        b_dec = ex.child(st, inter_at_call, fidx(ex, I_, 'body'), None)
        if not ex.veq(b_wire, b_dec):
            bad('the body serialised for the wire is not the body the handler saw')
        if rd == 0:
            cover.add('ok')
            md = ex.child(st, payload(ex, st, r, 0, 0, None), 1, None)
            if dval(ex, st, ex.discr_of(st, md).t) != 1 or not ex.veq(payload(ex, st, md, 1, 0, None), payload(ex, st, dres, 0, 0, None)):
                bad('the returned metadata is not the handler\'s')
    if not {'ok', 'no-handler', 'decoration-error'} <= cover:
        D.failed = D.failed or ('inconclusive', 'vacuous: %s' % sorted(cover), None, None)
    f = D.done()
    if f and f[0] == 'violated':
        o.key = o.name
    chk.absorb(ex)


def run(chk):
    decorate(chk)
    build_with_handler(chk)
    callers.monitor_attempt_loop(chk, chk.tier)
    chk.obligations = [o for o in chk.obligations if o.name in ('decorate-request', 'build-decorates-what-it-sends', 'session-and-request-ids')]
    chk.assumptions += [
        'outside: that append_query_parameter leaves scheme, authority, path and existing query intact for all URLs (http::Uri parsing; an event here), and the randomness of Nonce::new (an event returning a fresh value); a nonce is never stored or reused: it flows only into the cup2key value and the returned metadata',
        'every exchange goes through do_omaha_request_and_update_context -> RequestBuilder::build(handler) (C02 exploration), so update checks, retries, event reports and pings are all decorated by the code checked here',
        'format!("{id}:{nonce}") is identified by its two arguments and a template containing exactly one ":"',
    ]


if __name__ == '__main__':
    chk = Check('C03')
    try:
        run(chk)
    except Inconclusive as e:
        o = chk.ob('engine', 'executor could not interpret the code')
        o.status = 'inconclusive'
        o.detail = str(e)
    sys.exit(chk.finish())
