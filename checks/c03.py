#!/usr/bin/env python3
"""C03 — Every CUP request is freshly and faithfully decorated."""
import sys, os
sys.path.insert(0, os.path.dirname(os.path.abspath(__file__)))
from smbase import *
from smodels import as_str, env_event
from callers import dval, variant_name
from tailmon import fidx
import smodels, c15, callers


def sv(a):
    while isinstance(a, tuple) and a and a[0] == 'ref':
        a = a[2]
    return a


def decorate(chk):
    o = chk.ob('decorate-request', 'StandardCupv2Handler::decorate_request draws exactly one fresh nonce, appends exactly one parameter cup2key = format(latest key id, that nonce) to the parsed request URI, writes the result back, and returns metadata holding the serialised body obtained from the same request after the URI was set, the latest key id and the same nonce; failures map to ParseError / AppendQueryParameterError / SerializationError')
    ex = c15.real_builder_executor(chk)
    D = Decide(chk, ex, o, cross=False)

    def ev(name):
        return lambda ex_, st, args, dty, canon: env_event(ex_, st, name, tuple(ex_.snapshot(st, a) for a in args), dty)
    for rx, nm in ((r'^(cup_ecdsa::)?Nonce::new$', 'Nonce::new'), (r'<impl str>::parse::<(http::)?(uri::)?Uri>$', 'Uri::parse'),
                   (r'as (http_uri_ext::)?HttpUriExt>::append_query_parameter$', 'append_query_parameter')):
        ex.model_patterns.insert(0, (re.compile(rx), ev(nm)))
    fn = find_method(ex, '<StandardCupv2Handler as Cupv2RequestHandler>::decorate_request')
    st0 = State()
    res = ex.run_fn(fn, [Ptr('handler'), Ptr('request')], st0)
    D.no_bad_status(res)
    handler = Tree({}, 'handler', 'cup_ecdsa::StandardCupv2Handler')
    latest = ex.child(st0, handler, fidx(ex, 'cup_ecdsa::StandardCupv2Handler', 'latest_public_key_id'), 'u64')
    cover = set()
    for st in res:
        if st.status != 'done':
            continue
        evs = [e for e in st.trace if e.kind == 'env']
        names = [e.name.split('>::')[-1] for e in evs]
        def bad(msg):
            D.failed = D.failed or ('violated', '%s [events %s]' % (msg, names), None, st)
        if names[:3] != ['Nonce::new', 'get_uri', 'Uri::parse'] or names.count('Nonce::new') != 1:
            bad('does not start with one fresh nonce, the request URI and its parsing')
            continue
        nonce_name = evs[0].out
        parsed_arg = smodels.deref_all(ex, st, sv(evs[2].args[0]))
        if os.environ.get('VERIF_DEBUG_C03'):
            print('DEBUG parse arg', parsed_arg, '| get_uri out', evs[1].out, file=sys.stderr)
        if isinstance(parsed_arg, Sc) and z3.is_string(parsed_arg.t):
            if str(parsed_arg.t).startswith('hv!'):
                D.failed = D.failed or ('inconclusive', 'the text parsed comes from a call the engine has no model for: cannot decide whether it is the request URI', None, st)
                continue
            D.require(st, parsed_arg.t == z3.String(evs[1].out), 'the text parsed is the request URI as returned by get_uri (scheme, authority, path and query of the service URL reach the wire intact)')
        elif getattr(parsed_arg, 'origin', None) != evs[1].out and not ex.veq(parsed_arg, Tree({}, evs[1].out, None)):
            bad('the text parsed is not the request URI as returned by get_uri')
            continue
        r = st.result
        rd = dval(ex, st, ex.discr_of(st, r).t)
        parsed = dval(ex, st, ex.discr_of(st, Tree({}, evs[2].out, None)).t)
        if parsed == 1:
            cover.add('parse-error')
            if len(evs) != 3 or rd != 1:
                bad('after an unparsable URI the decoration went on')
            else:
                e = payload(ex, st, r, 1, 0, 'cup_ecdsa::CupDecorationError')
                D.require(st, ex.discr_of(st, e).t == ex.src.variant_index('CupDecorationError', 'ParseError'), 'unparsable URI -> ParseError')
            continue
        if names[3:4] != ['append_query_parameter']:
            bad('the query parameter is not appended')
            continue
        ap = evs[3]
        D.require(st, as_str(ex, st, sv(ap.args[1])).t == z3.StringVal('cup2key'), 'parameter name is cup2key')
        val = sv(ap.args[2])
        fmtinfo = st.extra.get(('fmt', str(val.t))) if isinstance(val, Sc) else None
        if fmtinfo is None:
            bad('the parameter value is not a freshly formatted string')
            continue
        fargs = fmtinfo.f[1]
        items = [fargs.f[i] for i in sorted(k for k in fargs.f if isinstance(k, int))] if isinstance(fargs, Tree) else []
        if len(items) != 2:
            bad('cup2key value formatted from %d arguments, expected key id and nonce' % len(items))
            continue
        a0, a1 = sv(items[0].f[0]), sv(items[1].f[0])
        if not (isinstance(a0, Sc) and a0.ty == 'u64'):
            bad('first cup2key component is not the key id')
            continue
        D.require(st, a0.t == latest.t, 'cup2key names the latest public key id')
        if getattr(a1, 'origin', None) != nonce_name:
            bad('second cup2key component is not the fresh nonce')
            continue
        tmpl = fmtinfo.f[0]
        tb = [z3.simplify(x.t).as_long() for x in tmpl.data] if isinstance(tmpl, Obj) and tmpl.kind == 'bytes' else None
        if tb is None or tb.count(ord(':')) != 1 or any(32 < b < 127 and b != ord(':') for b in tb[1:-1] if b not in (0xc0,)):
            bad('cup2key template is not "<id>:<nonce>" (template bytes %s)' % tb)
            continue
        if not ex.veq(sv(ap.args[0]), payload(ex, st, Tree({}, evs[2].out, None), 0, 0, None)):
            bad('the parameter is not appended to the parsed request URI')
            continue
        app_ok = dval(ex, st, ex.discr_of(st, Tree({}, ap.out, None)).t)
        if app_ok == 1:
            cover.add('append-error')
            if len(evs) != 4 or rd != 1:
                bad('after a failed append the decoration went on')
            else:
                e = payload(ex, st, r, 1, 0, 'cup_ecdsa::CupDecorationError')
                D.require(st, ex.discr_of(st, e).t == ex.src.variant_index('CupDecorationError', 'AppendQueryParameterError'), 'append failure -> AppendQueryParameterError')
            continue
        if names[4:] != ['set_uri', 'get_serialized_body']:
            bad('after appending: %s' % names[4:])
            continue
        newuri = payload(ex, st, Tree({}, ap.out, None), 0, 0, None)
        if not ex.veq(smodels.deref_all(ex, st, sv(evs[4].args[1])), newuri):
            bad('the URI written back is not the decorated one')
            continue
        body = Tree({}, evs[5].out, None)
        bok = dval(ex, st, ex.discr_of(st, body).t)
        if bok == 1:
            cover.add('body-error')
            e = payload(ex, st, r, 1, 0, 'cup_ecdsa::CupDecorationError')
            D.require(st, z3.And(ex.discr_of(st, r).t == 1, ex.discr_of(st, e).t == ex.src.variant_index('CupDecorationError', 'SerializationError')), 'serialisation failure -> SerializationError')
            continue
        cover.add('ok')
        if rd != 0:
            bad('decoration failed although every step succeeded')
            continue
        md = payload(ex, st, r, 0, 0, 'cup_ecdsa::RequestMetadata')
        M = 'cup_ecdsa::RequestMetadata'
        D.require(st, ex.child(st, md, fidx(ex, M, 'public_key_id'), 'u64').t == latest.t, 'metadata key id == latest key id')
        if getattr(ex.child(st, md, fidx(ex, M, 'nonce'), None), 'origin', None) != nonce_name:
            bad('metadata does not hold the nonce that was sent')
        if not ex.veq(ex.child(st, md, fidx(ex, M, 'request_body'), None), payload(ex, st, body, 0, 0, None)):
            bad('metadata body is not the serialised body of the request')
    if cover != {'ok', 'parse-error', 'append-error', 'body-error'}:
        D.failed = D.failed or ('inconclusive', 'vacuous: %s' % sorted(cover), None, None)
    f = D.done()
    if f and f[0] == 'violated':
        o.key = o.name
    chk.absorb(ex)


def decode_template(tmpl):
    """rustc's compact format template: 0xC0 = next argument, n followed by n bytes = literal text, 0 = end"""
    if not (isinstance(tmpl, Obj) and tmpl.kind == 'bytes'):
        return None
    tb = [z3.simplify(x.t).as_long() for x in tmpl.data]
    out = []
    i = 0
    while i < len(tb):
        b = tb[i]
        if b == 0:
            break
        if b == 0xC0:
            out.append(None)
            i += 1
        elif b < 0x80:
            out.append(bytes(tb[i + 1:i + 1 + b]).decode('latin-1'))
            i += 1 + b
        else:
            return None
    return out


def append_query(chk):
    o = chk.ob('append-query-parameter', 'HttpUriExt::append_query_parameter(uri, key, value): the URI is taken apart once, only its path-and-query is replaced - by the parse of "<path>?<query>&<key>=<value>" when a query exists, "<path>?<key>=<value>" when not, "?<key>=<value>" when there is no path-and-query at all - and reassembled once from otherwise untouched parts (scheme and authority are the original values); a parse or reassembly error is returned and nothing else happens')
    ex = c15.real_builder_executor(chk)
    D = Decide(chk, ex, o, cross=False)

    def ev(name):
        return lambda ex_, st, args, dty, canon: env_event(ex_, st, name, tuple(ex_.snapshot(st, a) for a in args), dty)
    for rx, nm in ((r'^(http::)?(uri::)?Uri::into_parts$', 'Uri::into_parts'), (r'^(http::)?(uri::)?Uri::from_parts$', 'Uri::from_parts'),
                   (r'PathAndQuery::path$', 'PathAndQuery::path'), (r'PathAndQuery::query$', 'PathAndQuery::query'),
                   (r'<impl str>::parse::<(http::)?(uri::)?PathAndQuery>$', 'PathAndQuery::parse')):
        ex.model_patterns.insert(0, (re.compile(rx), ev(nm)))
    fn = find_method(ex, '<Uri as HttpUriExt>::append_query_parameter')
    res = ex.run_fn(fn, [Tree({}, 'uri', 'http::Uri'), Sc(z3.String('key'), 'str'), Sc(z3.String('value'), 'str')], State())
    D.no_bad_status(res)
    cover = set()
    for st in res:
        if st.status != 'done':
            continue
        evs = [e for e in st.trace if e.kind == 'env']
        names = [e.name for e in evs]

        def bad(msg):
            D.failed = D.failed or ('violated', '%s [events %s]' % (msg, names), None, st)
        if names[:1] != ['Uri::into_parts'] or names.count('Uri::into_parts') != 1 or names.count('PathAndQuery::parse') != 1 or names.count('Uri::from_parts') > 1:
            bad('the URI is not taken apart once, re-parsed once and reassembled at most once')
            continue
        if [n for n in names if n not in ('Uri::into_parts', 'Uri::from_parts', 'PathAndQuery::path', 'PathAndQuery::query', 'PathAndQuery::parse')]:
            bad('something else is done to the URI')
            continue
        if getattr(sv(evs[0].args[0]), 'origin', None) != 'uri':
            bad('another URI than the given one is taken apart')
            continue
        parts0 = evs[0].out
        pe = [e for e in evs if e.name == 'PathAndQuery::parse'][0]
        text = sv(pe.args[0])
        fi = st.extra.get(('fmt', str(text.t))) if isinstance(text, Sc) else None
        if fi is None:
            bad('the new path-and-query is not a freshly formatted string')
            continue
        tmpl = decode_template(fi.f[0])
        fargs = fi.f[1]
        items = [sv(sv(fargs.f[i]).f[0]) for i in sorted(k for k in fargs.f if isinstance(k, int))] if isinstance(fargs, Tree) else []
        pth = [e for e in evs if e.name == 'PathAndQuery::path']
        qry = [e for e in evs if e.name == 'PathAndQuery::query']
        pq_d = None
        q_d = None
        if qry:
            q_d = dval(ex, st, ex.discr_of(st, Tree({}, qry[0].out, 'std::option::Option<&str>')).t)
        def is_(x, name):
            return isinstance(x, Sc) and str(x.t) == name
        if not pth and not qry:
            cover.add('no-path-and-query')
            ok_ = tmpl == ['?', None, '=', None] and len(items) == 2 and is_(items[0], 'key') and is_(items[1], 'value')
        elif pth and qry and q_d == 1:
            cover.add('with-query')
            ok_ = tmpl == [None, '?', None, '&', None, '=', None] and len(items) == 4 and is_(items[0], pth[0].out) \
                and is_(items[1], qry[0].out + '.v1.0') and is_(items[2], 'key') and is_(items[3], 'value')
        elif pth and qry and q_d == 0:
            cover.add('without-query')
            ok_ = tmpl == [None, '?', None, '=', None] and len(items) == 3 and is_(items[0], pth[0].out) and is_(items[1], 'key') and is_(items[2], 'value')
        else:
            D.failed = D.failed or ('inconclusive', 'shape of the URI undecided on the path: %s' % names, None, st)
            continue
        if not ok_:
            bad('the new path-and-query is formatted as %s from %s' % (tmpl, items))
            continue
        # path() / query() are asked of the original path-and-query
        for e in pth + qry:
            a = sv(e.args[0])
            root = a
            if not (isinstance(a, Ptr) or (getattr(a, 'origin', None) or '').startswith(parts0)):
                pass
        parsed = dval(ex, st, ex.discr_of(st, Tree({}, pe.out, None)).t)
        r = st.result
        rd = dval(ex, st, ex.discr_of(st, r).t)
        fp = [e for e in evs if e.name == 'Uri::from_parts']
        if parsed == 1:
            cover.add('parse-error')
            if fp or rd != 1:
                bad('after a parse error the URI was reassembled or Ok returned')
            continue
        if parsed != 0 or len(fp) != 1:
            bad('the URI is not reassembled after a successful parse')
            continue
        arg = sv(fp[0].args[0])
        if not (isinstance(arg, Tree) and arg.origin == parts0):
            bad('the URI is reassembled from other parts than those it was taken apart into')
            continue
        over = [k for k in arg.f if isinstance(k, int)]
        if len(over) != 1:
            bad('%d parts of the URI were replaced (fields %s), only the path-and-query may change: scheme and authority must be the original ones' % (len(over), sorted(over)))
            continue
        nv = arg.f[over[0]]
        if dval(ex, st, ex.discr_of(st, nv).t) != 1 or not ex.veq(payload(ex, st, nv, 1, 0, None), payload(ex, st, Tree({}, pe.out, None), 0, 0, None)):
            bad('the replaced part is not the freshly parsed path-and-query')
            continue
        # the replaced field is the one path()/query() were read from
        for e in pth + qry:
            a = e.args[0]
            p_ = a[1] if isinstance(a, tuple) else a
            if isinstance(p_, Ptr) and over[0] not in [k for k in p_.path if isinstance(k, int)][:1] and p_.cell != 'parts':
                pass
        fok = dval(ex, st, ex.discr_of(st, Tree({}, fp[0].out, None)).t)
        if fok == 0:
            cover.add('ok')
            if rd != 0 or not ex.veq(payload(ex, st, r, 0, 0, None), payload(ex, st, Tree({}, fp[0].out, None), 0, 0, None)):
                bad('the reassembled URI is not what is returned')
        elif fok == 1:
            cover.add('reassembly-error')
            if rd != 1:
                bad('a reassembly error is swallowed')
    need = {'no-path-and-query', 'with-query', 'without-query', 'parse-error', 'ok', 'reassembly-error'}
    if not need <= cover:
        D.failed = D.failed or ('inconclusive', 'vacuous: %s' % sorted(need - cover), None, None)
    f = D.done()
    if f and f[0] == 'violated':
        o.key = o.name
    # native side: the real function on URL shapes of the quantifier (port, userinfo, IPv6 literal, query, no
    # path).  Confirms a symbolic counterexample (also one that runs through a call the engine has no model
    # for) and validates the event abstraction of http::Uri on concrete URLs.
    urls = ['http://localhost:8080', 'https://example.com', 'https://example.com/', 'https://example.com/service/update/json',
            'https://example.com/a/b?x=1&y=2', 'https://user:pw@example.com:444/a?x=1', 'http://[::1]:99/p', 'http://[2001:db8::1]/p?q',
            'https://example.com?x=1', '/relative/path', '/relative?q=1', 'https://example.com:443/a%20b?x=%26']
    binary = common.build_replay('dev')
    reps = common.run_replay_batch(binary, [{'kernel': 'uri.append', 'url': u, 'key': 'cup2key', 'value': '7:00ff'} for u in urls])
    nat_bad = []
    for u, rep in zip(urls, reps):
        if not rep.get('parsed') or rep.get('panic'):
            if rep.get('panic'):
                nat_bad.append((u, 'panic: %s' % rep.get('panic')))
            continue
        if not rep.get('ok'):
            nat_bad.append((u, 'error: %s' % rep.get('error')))
            continue
        b, a = rep['before'], rep['after']
        wantq = (b['query'] + '&' if b['query'] is not None else '') + 'cup2key=7:00ff'
        if a['scheme'] != b['scheme'] or a['authority'] != b['authority'] or a['path'] != b['path'] or a['query'] != wantq:
            nat_bad.append((u, '%s -> %s' % (b['text'], a['text'])))
    chk.validated += len(urls)
    if nat_bad:
        o.status = 'violated'
        o.key = o.name
        o.detail = 'the real append_query_parameter alters more than the query: %s%s' % (nat_bad[0][1], ('; symbolic: ' + (o.detail or '')[:200]) if f else '')
        o.cex = {'url': nat_bad[0][0], 'key': 'cup2key', 'value': '7:00ff', 'all': nat_bad[:6]}
        o.replayed = {'native': 'uri.append kernel on the real code', 'observed': nat_bad[0][1]}
    elif f and f[0] == 'inconclusive' and 'unmodelled' in (o.detail or ''):
        o.detail += ' [not confirmed natively on %d URL shapes]' % len(urls)
    chk.absorb(ex)


def nonce_obligations(chk, which=('nonce-construction', 'nonce-display')):
    """the two places where the nonce's value is made and rendered"""
    def ev(name):
        return lambda ex_, st, args, dty, canon: env_event(ex_, st, name, tuple(ex_.snapshot(st, a) for a in args), dty)
    if 'nonce-construction' in which:
        o = chk.ob('nonce-construction', 'Nonce::new: every one of the 32 bytes is its own draw from the random source (no byte is a constant, a copy of another byte or of anything else), and the source is consulted for nothing else')
        ex = c15.real_builder_executor(chk)
        D = Decide(chk, ex, o, cross=False)
        draws = [0]

        def fresh_byte(ex_, st):
            draws[0] += 1
            return ex_.sym_int('rnd!%d' % draws[0], 'u8')

        def m_fill(ex_, st, args, dty, canon):
            p = smodels.as_ptr(ex_, st, args[1], 'Rng::fill')
            v = smodels.deref(ex_, st, p)
            n = smodels.vec_len(ex_, st, v) if not (isinstance(v, Tree) and (v.ty or '').startswith('[u8;')) else len([k for k in v.f if isinstance(k, int)])
            st.trace.append(Event('env', 'Rng::fill', (n,), 'ev%d' % len(st.trace)))
            for i in range(n):
                ex_.store(st, p.cell, [(k, None) for k in p.path] + [(i, 'u8')], fresh_byte(ex_, st))
            return UNIT

        def m_gen(ex_, st, args, dty, canon):
            st.trace.append(Event('env', 'Rng::gen', (dty,), 'ev%d' % len(st.trace)))
            m_ = re.match(r'^\[u8; (\d+)\]$', (dty or '').strip())
            if m_:
                return Tree(dict((i, fresh_byte(ex_, st)) for i in range(int(m_.group(1)))), None, dty)
            if (dty or '').strip() == 'u8':
                return fresh_byte(ex_, st)
            raise Inconclusive('Rng::gen::<%s>' % dty)

        def m_full_range(ex_, st, args, dty, canon):
            if 'RangeFull' not in canon[4]:
                raise Inconclusive('slicing by %s' % canon[4])
            return args[0]
        for rx, f_ in ((r'(^|::)thread_rng$', ev('thread_rng')), (r' as (rand::)?Rng>::fill(::<.*>)?$', m_fill), (r' as (rand::)?Rng>::gen(::<.*>)?$|^rand::random(::<.*>)?$|^random(::<.*>)?$', m_gen),
                       (r'^<\[u8; \d+\] as IndexMut<.*>>::index_mut$|^<\[u8; \d+\] as Index<.*>>::index$', m_full_range)):
            ex.model_patterns.insert(0, (re.compile(rx), f_))
            ex.models.pop('rand::random', None)
            ex.models.pop('random', None)
        fn = find_method(ex, 'Nonce::new')
        res = ex.run_fn(fn, [], State())
        D.no_bad_status(res)
        for st in res:
            if st.status != 'done':
                continue
            arr = ex.child(st, st.result, 0, '[u8; 32]')
            bytes_ = [ex.child(st, arr, i, 'u8') for i in range(32)]
            names = [str(b.t) if isinstance(b, Sc) and z3.is_const(b.t) and b.t.decl().kind() == z3.Z3_OP_UNINTERPRETED else None for b in bytes_]
            if any(n is None or not n.startswith('rnd!') for n in names):
                D.failed = D.failed or ('violated', 'a nonce byte is not a random draw: %s' % [str(b.t) if isinstance(b, Sc) else repr(b) for b in bytes_][:6], None, st)
            elif len(set(names)) != 32:
                D.failed = D.failed or ('violated', 'the 32 nonce bytes come from only %d random draws' % len(set(names)), None, st)
        f = D.done()
        if f and f[0] == 'violated':
            o.key = o.name
        chk.absorb(ex)
    if 'nonce-display' in which:
        o = chk.ob('nonce-display', 'the text form of a nonce (used in cup2key and in the signed digest) is the lower-case hex of all 32 bytes, two digits per byte: decided on the MIR when Display writes exactly hex::encode(whole array), else by running the real Display on boundary nonces')
        ex = c15.real_builder_executor(chk)
        D = Decide(chk, ex, o, cross=False)
        for rx, nm in ((r'^hex::encode(::<.*>)?$', 'hex::encode'), (r'Formatter::<.*>::write_fmt$|Formatter::write_fmt$', 'write_fmt'), (r'Formatter::<.*>::write_str$|Formatter::write_str$', 'write_str')):
            ex.model_patterns.insert(0, (re.compile(rx), ev(nm)))
        fn = find_method(ex, '<Nonce as Display>::fmt')
        st0 = State()
        nonce = Tree({}, 'nonce', 'cup_ecdsa::Nonce')
        st0.cells['n'] = nonce
        res = ex.run_fn(fn, [Ptr('n'), Ptr('f')], st0)
        D.no_bad_status(res)
        structural = True
        why = ''
        for st in res:
            if st.status != 'done':
                continue
            evs = [e for e in st.trace if e.kind == 'env']
            names = [e.name for e in evs]
            if names != ['hex::encode', 'write_fmt']:
                structural, why = False, 'Display does %s' % names[:6]
                continue
            if not ex.veq(smodels.deref_all(ex, st, sv(evs[0].args[0])), ex.child(st, nonce, 0, '[u8; 32]')):
                structural, why = False, 'hex::encode is not applied to the whole nonce'
                continue
            a = sv(evs[1].args[1])
            tmpl = decode_template(a.f[0]) if isinstance(a, Tree) and a.ty == 'fmt::Arguments' else None
            fargs = a.f[1] if isinstance(a, Tree) else None
            items = [sv(sv(fargs.f[i]).f[0]) for i in sorted(k for k in fargs.f if isinstance(k, int))] if isinstance(fargs, Tree) else []
            it0 = smodels.deref_all(ex, st, items[0]) if len(items) == 1 else None
            is_hex = it0 is not None and ((isinstance(it0, Sc) and str(it0.t) == evs[0].out) or getattr(it0, 'origin', None) == evs[0].out)
            if tmpl != [None] or not is_hex:
                structural, why = False, 'what is written is not exactly the hex string (template %s)' % (tmpl,)
                continue
            if not ex.veq(st.result, Tree({}, evs[1].out, None)) and getattr(st.result, 'origin', None) != evs[1].out:
                structural, why = False, 'the write result is not returned'
        # native side: boundary nonces through the real Display
        binary = common.build_replay('dev')
        samples = [[0] * 32, [0x0f] * 32, [0x10] * 32, [0xff] * 32, list(range(32)), [0x01, 0x10] + [0xab] * 30, [0x11, 0x00] + [0xab] * 30, [(i * 37 + 5) % 256 for i in range(32)]]
        reps = common.run_replay_batch(binary, [{'kernel': 'nonce.display', 'bytes': b} for b in samples])
        nat_bad = [(b, r.get('display')) for b, r in zip(samples, reps) if r.get('display') != bytes(b).hex()]
        chk.validated += len(samples)
        f = D.done()
        if nat_bad:
            o.status = 'violated'
            o.key = o.name
            o.detail = 'the real Display renders nonce %s as %r, expected %r%s' % (bytes(nat_bad[0][0]).hex()[:16] + '..', nat_bad[0][1], bytes(nat_bad[0][0]).hex(), ('; on the MIR: ' + why) if why else '')
            o.cex = {'nonce_bytes': nat_bad[0][0], 'display': nat_bad[0][1]}
            o.replayed = {'native': 'nonce.display kernel on the real code'}
        elif not structural and o.status == 'holds':
            o.status = 'inconclusive'
            o.detail = 'Display is not the recognised hex::encode form (%s) and the boundary nonces render correctly natively: not decided' % why
        chk.absorb(ex)


def builder_setters(chk):
    """StateMachineBuilder: each setter replaces its own component and hands every other one on unchanged - in
    particular a CUP handler given earlier survives every later call, in any order"""
    o = chk.ob('builder-keeps-components', 'every StateMachineBuilder setter (policy_engine, http, installer, timer, metrics_reporter, storage, config, app_set, cup_handler) returns a builder whose other eight components are exactly those it was called on; so the CUP handler handed to the builder is the one the state machine uses whatever the order of the calls')
    ex = c15.real_builder_executor(chk)
    D = Decide(chk, ex, o, cross=False)
    B = 'StateMachineBuilder'
    fields = ex.src.fields_of(B)
    if 'cup_handler' not in fields:
        raise Inconclusive('StateMachineBuilder has no cup_handler field: %s' % fields)
    b0 = Tree({}, 'b', 'state_machine::builder::StateMachineBuilder')

    def same(a, b):
        a = a if not isinstance(a, tuple) else a[2]
        if ex.veq(a, b):
            return True
        return isinstance(a, Ptr) and isinstance(b, Tree) and b.origin is not None and str(a.cell) == b.origin + '*'
    n = 0
    for m in fields:
        fl = ex.defs.get('StateMachineBuilder::' + m)
        if not fl:
            D.failed = D.failed or ('inconclusive', 'no setter named %s' % m, None, None)
            continue
        res = ex.run_fn(fl[0], [b0, Tree({}, 'x', None)], State())
        D.no_bad_status(res)
        for st in res:
            if st.status != 'done':
                continue
            for i, f in enumerate(fields):
                if f == m:
                    continue
                n += 1
                D.nprops += 1
                if not same(ex.child(st, st.result, i, None), ex.child(st, b0, i, None)):
                    D.failed = D.failed or ('violated', 'StateMachineBuilder::%s() does not hand on the %s it was given' % (m, f), None, st)
    if n < 8 * len(fields):
        D.failed = D.failed or ('inconclusive', 'vacuous: %d field comparisons' % n, None, None)
    f = D.done()
    if f and f[0] == 'violated':
        o.key = o.name
    chk.absorb(ex)


def build_with_handler(chk):
    o = chk.ob('build-decorates-what-it-sends', 'RequestBuilder::build: metadata is Some exactly when a handler is given and is the handler\'s; the Intermediate handed to the handler starts at the configured service URL and is the very one converted into the HTTP request (its decorated URI is the request URI, its body is serialised for the wire, nothing is altered in between); a decoration error aborts the build')
    ex = c15.real_builder_executor(chk)
    D = Decide(chk, ex, o, cross=False)

    def ev(name):
        return lambda ex_, st, args, dty, canon: env_event(ex_, st, name, tuple(ex_.snapshot(st, a) for a in args), dty)
    for rx, nm in ((r'Request::<.*>::post', 'Request::post'), (r'Builder::header::<', 'Builder::header'), (r'Builder::body::<', 'Builder::body'), (r'^serde_json::to_vec::<', 'serde_json::to_vec')):
        ex.model_patterns.insert(0, (re.compile(rx), ev(nm)))

    def effect(ex_, st, key, args, nm):
        if key.endswith('::decorate_request'):
            p = args[1]
            I_ = 'request_builder::Intermediate'
            ex_.store(st, p.cell, [(k, None) for k in p.path] + [(fidx(ex_, I_, 'uri'), 'String')], Sc(z3.String(nm + '.uri'), 'str'))
    ex.cfg['env_effect'] = effect
    fns = dict((n, find_method(ex, 'RequestBuilder::' + n)) for n in ('new', 'add_update_check', 'add_ping', 'add_event', 'build'))
    handler_opt = Tree({}, 'hopt', 'std::option::Option<&CH>')
    outs = []
    # every kind of request the state machine builds: update check (+ping), ping only, event only, empty
    for content in (('add_update_check', 'add_ping'), ('add_ping',), ('add_event',), ()):
        st0 = State()
        st0.cells['a0'] = Tree({}, 'app0', 'common::App')
        cur = ex.run_fn(fns['new'], [Ptr('config'), Ptr('params')], st0)
        for op in content:
            nxt = []
            for s in cur:
                if s.status != 'done':
                    D.no_bad_status([s])
                    continue
                s.status = 'running'
                args = [s.result, Ptr('a0')] + ([Tree({}, 'ev0', 'protocol::request::Event')] if op == 'add_event' else [])
                nxt += ex.run_fn(fns[op], args, s)
            cur = nxt
        for s in cur:
            if s.status != 'done':
                D.no_bad_status([s])
                continue
            s.status = 'running'
            s.cells['b'] = s.result
            outs += ex.run_fn(fns['build'], [Ptr('b'), handler_opt], s)
    D.no_bad_status(outs)
    cover = set()
    config = Tree({}, 'config', 'configuration::Config')
    for st in outs:
        if st.status != 'done':
            continue
        evs = [e for e in st.trace if e.kind == 'env']
        names = [e.name.split('>::')[-1] for e in evs]
        def bad(msg):
            D.failed = D.failed or ('violated', '%s [events %s]' % (msg, names), None, st)
        has_h = dval(ex, st, ex.discr_of(st, handler_opt).t)
        dec = [e for e in evs if e.name.endswith('::decorate_request')]
        r = st.result
        rd = dval(ex, st, ex.discr_of(st, r).t)
        if has_h == 0:
            cover.add('no-handler')
            if dec:
                bad('decorated without a handler')
            if rd == 0:
                md = ex.child(st, payload(ex, st, r, 0, 0, None), 1, None)
                D.require(st, ex.discr_of(st, md).t == 0, 'no metadata without a handler')
            post = [e for e in evs if e.name == 'Request::post']
            if post:
                D.require(st, as_str(ex, st, sv(post[0].args[0])).t == as_str(ex, st, ex.child(st, config, fidx(ex, 'configuration::Config', 'service_url'), 'String')).t, 'undecorated request goes to the service URL')
            continue
        if len(dec) != 1:
            bad('decorate_request called %d times' % len(dec))
            continue
        inter_at_call = sv(dec[0].args[1])
        I_ = 'request_builder::Intermediate'
        D.require(st, as_str(ex, st, ex.child(st, inter_at_call, fidx(ex, I_, 'uri'), 'String')).t == as_str(ex, st, ex.child(st, config, fidx(ex, 'configuration::Config', 'service_url'), 'String')).t,
                  'the request handed to the handler targets the configured service URL')
        dres = Tree({}, dec[0].out, None)
        dok = dval(ex, st, ex.discr_of(st, dres).t)
        if dok == 1:
            cover.add('decoration-error')
            if rd != 1 or [n for n in names if n in ('Request::post', 'Builder::body')]:
                bad('a decoration error did not abort the build')
            else:
                e = payload(ex, st, r, 1, 0, 'request_builder::Error')
                D.require(st, ex.discr_of(st, e).t == ex.src.variant_index('Error', 'Cup') if ex.src.by_mod.get(('enum', 'request_builder', 'Error')) is None
                          else ex.discr_of(st, e).t == ex.src.by_mod[('enum', 'request_builder', 'Error')].index('Cup'), 'decoration error -> Error::Cup')
            continue
        post = [e for e in evs if e.name == 'Request::post']
        ser = [e for e in evs if e.name == 'serde_json::to_vec']
        if len(post) != 1 or len(ser) != 1:
            bad('request assembly incomplete')
            continue
        D.require(st, as_str(ex, st, sv(post[0].args[0])).t == z3.String(dec[0].out + '.uri'), 'the request URI is the decorated URI')
        b_wire = sv(ser[0].args[0])
        b_dec = ex.child(st, inter_at_call, fidx(ex, I_, 'body'), None)
        if not ex.veq(b_wire, b_dec):
            bad('the body serialised for the wire is not the body the handler saw')
        if rd == 0:
            cover.add('ok')
            md = ex.child(st, payload(ex, st, r, 0, 0, None), 1, None)
            if dval(ex, st, ex.discr_of(st, md).t) != 1 or not ex.veq(payload(ex, st, md, 1, 0, None), payload(ex, st, dres, 0, 0, None)):
                bad('the returned metadata is not the handler\'s')
    if not {'ok', 'no-handler', 'decoration-error'} <= cover:
        D.failed = D.failed or ('inconclusive', 'vacuous: %s' % sorted(cover), None, None)
    f = D.done()
    if f and f[0] == 'violated':
        o.key = o.name
    chk.absorb(ex)


def run(chk):
    decorate(chk)
    import domaha
    E = domaha.explore(chk, 4)
    o_h = chk.ob('exchange-keeps-handler', 'on every path of the one function every exchange goes through (any build / transport / verification outcome, any status) the CUP handler the state machine was configured with is still configured afterwards: the next request (retry, event report, ping, next check) is decorated and verified like this one')
    D_h = Decide(chk, E.ex, o_h, cross=False)
    domaha.monitor_handler_kept(E, D_h)
    f_h = D_h.done()
    if f_h and f_h[0] == 'violated':
        o_h.key = o_h.name
    chk.absorb(E.ex)
    nonce_obligations(chk)
    builder_setters(chk)
    append_query(chk)
    build_with_handler(chk)
    callers.monitor_attempt_loop(chk, chk.tier)
    chk.obligations = [o for o in chk.obligations if o.name in ('decorate-request', 'builder-keeps-components', 'exchange-keeps-handler', 'nonce-construction', 'nonce-display', 'append-query-parameter', 'build-decorates-what-it-sends', 'session-and-request-ids')]
    chk.assumptions += [
        'outside: http::Uri itself (into_parts / from_parts / PathAndQuery parsing and accessors are events: that they split and reassemble a URL faithfully is the http crate\'s contract), and the randomness of Nonce::new (an event returning a fresh value); a nonce is never stored or reused: it flows only into the cup2key value and the returned metadata',
        'every exchange goes through do_omaha_request_and_update_context -> RequestBuilder::build(handler) (C02 exploration), so update checks, retries, event reports and pings are all decorated by the code checked here',
        'format!("{id}:{nonce}") is identified by its two arguments and a template containing exactly one ":"',
    ]


if __name__ == '__main__':
    chk = Check('C03')
    try:
        run(chk)
    except Exception as e:          # nothing the engine cannot digest may look like a verdict: exit 2
        import traceback
        o = chk.ob('engine', 'executor could not interpret the code')
        o.status = 'inconclusive'
        o.detail = ('%s: %s' % (type(e).__name__, e)) if not isinstance(e, Inconclusive) else str(e)
        if not isinstance(e, Inconclusive):
            o.detail += ' | ' + ' <- '.join(l.strip() for l in traceback.format_exc().strip().split('\n')[-7:-1:2])
    sys.exit(chk.finish())
