"""Shared driver for explorations of the state machine's async methods."""
from base import *
import smodels
from models import payload, deref_all, deref


def make_sm_executor(chk, cfg=None, cuts=('persist', 'appset')):
    ex = make_executor(chk, cfg)
    smodels.install(ex)
    if 'persist' in cuts:
        smodels.cut_persist(ex)
    if 'appset' in cuts:
        smodels.cut_appset(ex)
    if 'do_omaha' in cuts:
        smodels.cut_do_omaha(ex)
    if 'check_interval' in cuts:
        smodels.cut_report_check_interval(ex)
    if 'puc' in cuts:
        smodels.cut_perform_update_check(ex)
    if 'sut' in cuts:
        smodels.cut_start_update_check(ex)
    if 'ping' in cuts:
        smodels.cut_ping(ex)
    if 'select' in cuts:
        smodels.install_select(ex)
    if 'first_seen' in cuts:
        smodels.cut_record_first_seen(ex)
    return ex


def drive_async(ex, ctor, args, st=None, max_polls=4, futcell='fut0'):
    """call the async fn `ctor` and poll the returned coroutine to completion (re-polling on Pending)"""
    st = st or State()
    res = ex.run_fn(ctor, args, st)
    outs = []
    for s in res:
        if s.status != 'done':
            outs.append(s)
            continue
        s.status = 'running'
        s.cells[futcell] = s.result

        def mk(n):
            def hook(ex2, s2, pv):
                d = z3.simplify(ex2.discr_of(s2, pv).t)
                if z3.is_int_value(d) and d.as_long() == 0:
                    s2.status = 'done'
                    s2.result = payload(ex2, s2, pv, 0, 0)
                elif n < max_polls:
                    # the task is suspended here; remember whether the control channel was polled since the
                    # last suspension (a request arriving now is seen only if it was)
                    s2.trace.append(Event('susp', 'suspend', (s2.extra.get('ctl_polls', 0),), 'susp%d' % n))
                    s2.extra['ctl_polls'] = 0
                    body = ex2.coroutine_body(s2.cells[futcell])
                    ex2.new_frame(s2, body, [Tree({0: Ptr(futcell)}, None, 'Pin'), UNIT], on_return=mk(n + 1))
                else:
                    s2.trace.append(Event('susp', 'suspend', (s2.extra.get('ctl_polls', 0),), 'susp%d' % n))
                    s2.extra['ctl_polls'] = 0
                    s2.status = 'bound'
                    s2.info = 'still pending after %d polls' % n
            return hook
        body = ex.coroutine_body(s.result)
        if body is None:
            raise Inconclusive('no coroutine body for %r' % (s.result,))
        ex.new_frame(s, body, [Tree({0: Ptr(futcell)}, None, 'Pin'), UNIT], on_return=mk(1))
        outs.extend(ex.explore(s))
    return outs


def ev_names(st, kinds=('env', 'model', 'yield')):
    return [e.name for e in st.trace if e.kind in kinds]
