#!/usr/bin/env python3
"""C09 — Cohort and user-counting data follow the server and persist."""
import sys, os
sys.path.insert(0, os.path.dirname(os.path.abspath(__file__)))
from smbase import *
from smodels import as_str, mk_vec, vec_items, it, model, pattern, env_event, fut
from callers import dval, mk_assume
from tailmon import fidx
import sutmon, smodels

OS = 'std::option::Option<String>'


def opt_str(ex, st, v):
    """(is_some Bool, string term) of an Option<String>"""
    d = ex.discr_of(st, v, OS).t
    p = as_str(ex, st, payload(ex, st, v, 1, 0, 'String'))
    return d == 1, p.t


def opt_str_eq(a, b):
    return z3.And(a[0] == b[0], z3.Implies(a[0], a[1] == b[1]))


def cohort_fields(ex, st, c):
    return [opt_str(ex, st, ex.child(st, c, fidx(ex, 'protocol::Cohort', f), OS)) for f in ('id', 'hint', 'name')]


def uc_terms(ex, st, uc):
    """(is_some Bool, day Int) of UserCounting::ClientRegulatedByDate(Option<u32>)"""
    o = payload(ex, st, uc, 0, 0, 'std::option::Option<u32>')
    return ex.discr_of(st, o).t == 1, payload(ex, st, o, 1, 0, 'u32').t


def uc_eq(a, b):
    return z3.And(a[0] == b[0], z3.Implies(a[0], a[1] == b[1]))


def cohort_merge(chk, ex):
    o = chk.ob('cohort-merge', 'Cohort::update_from_omaha: every field the response carries (even empty) replaces the app\'s value, absent fields are kept - for all 3^6 present-empty / present / absent combinations and all strings')
    D = Decide(chk, ex, o)
    fn = find_method(ex, 'Cohort::update_from_omaha')
    st0 = State()
    mine = Tree({}, 'mine', 'protocol::Cohort')
    st0.cells['mine'] = mine
    theirs = Tree({}, 'theirs', 'protocol::Cohort')
    res = ex.run_fn(fn, [Ptr('mine'), theirs], st0)
    D.no_bad_status(res)
    old = cohort_fields(ex, st0, mine)
    new = cohort_fields(ex, st0, theirs)
    for st in res:
        if st.status != 'done':
            continue
        got = cohort_fields(ex, st, ex.load(st, 'mine', []))
        for g, o_, n_ in zip(got, old, new):
            D.require(st, z3.If(n_[0], opt_str_eq(g, n_), opt_str_eq(g, o_)), 'field = response value if present else kept')
    f = D.done()
    if f and f[0] == 'violated':
        o.key = o.name
    return D


def app_set_update(chk, ex, napps, nresp):
    o = chk.ob('routing-by-app-id[%d apps,%d responses]' % (napps, nresp), 'AppSetExt::update_from_omaha: each app takes cohort fields and user counting from the first response with its id; apps without a matching response are unchanged')
    D = Decide(chk, ex, o, cross=False)
    fn = [f for f in ex.order if f.kind == 'fn' and f.name.endswith('AppSetExt::update_from_omaha')]
    if len(set(f.text_hash for f in fn)) != 1:
        raise Inconclusive('AppSetExt::update_from_omaha not found uniquely')
    st0 = State()
    apps = mk_vec([Tree({}, 'app%d' % i, 'common::App') for i in range(napps)], 'Vec<common::App>')
    st0.cells['apps'] = apps
    resps = mk_vec([Tree({}, 'resp%d' % j, 'update_check::AppResponse') for j in range(nresp)], 'Vec<AppResponse>')
    st0.cells['resps'] = resps
    ex.models['<Self as AppSet>::iter_mut_apps'] = lambda ex_, st, args, dty, canon: it('ref', Ptr('apps'), 0, napps)
    try:
        res = ex.run_fn(fn[0], [Ptr('appset'), Ptr('resps')], st0)
    finally:
        ex.models.pop('<Self as AppSet>::iter_mut_apps', None)
    D.no_bad_status(res)
    A = 'common::App'
    R = 'AppResponse'
    for st in res:
        if st.status != 'done':
            continue
        for i in range(napps):
            a0 = Tree({}, 'app%d' % i, A)
            a1 = ex.load(st, 'apps', [(i, A)])
            aid = as_str(ex, st, ex.child(st, a0, fidx(ex, A, 'id'), 'String')).t
            old_c = cohort_fields(ex, st, ex.child(st, a0, fidx(ex, A, 'cohort'), 'protocol::Cohort'))
            new_c = cohort_fields(ex, st, ex.child(st, a1, fidx(ex, A, 'cohort'), 'protocol::Cohort'))
            old_u = uc_terms(ex, st, ex.child(st, a0, fidx(ex, A, 'user_counting'), 'common::UserCounting'))
            new_u = uc_terms(ex, st, ex.child(st, a1, fidx(ex, A, 'user_counting'), 'common::UserCounting'))
            # spec: first matching response
            spec_c = old_c
            spec_u = old_u
            for j in reversed(range(nresp)):
                r = Tree({}, 'resp%d' % j, R)
                rid = as_str(ex, st, ex.child(st, r, fidx(ex, R, 'app_id'), 'String')).t
                rc = cohort_fields(ex, st, ex.child(st, r, fidx(ex, R, 'cohort'), 'protocol::Cohort'))
                ru = uc_terms(ex, st, ex.child(st, r, fidx(ex, R, 'user_counting'), 'common::UserCounting'))
                m = rid == aid
                merged = [(z3.If(n_[0], n_[0], o_[0]), z3.If(n_[0], n_[1], o_[1])) for n_, o_ in zip(rc, old_c)]
                spec_c = [(z3.If(m, mc[0], sc[0]), z3.If(m, mc[1], sc[1])) for mc, sc in zip(merged, spec_c)]
                spec_u = (z3.If(m, ru[0], spec_u[0]), z3.If(m, ru[1], spec_u[1]))
            D.require(st, z3.And(*[opt_str_eq(g, s_) for g, s_ in zip(new_c, spec_c)]), 'app %d cohort == merge with its first matching response' % i)
            D.require(st, uc_eq(new_u, spec_u), 'app %d user counting == that of its first matching response (else kept)' % i)
            nid = as_str(ex, st, ex.child(st, a1, fidx(ex, A, 'id'), 'String')).t
            D.require(st, nid == aid, 'app id untouched')
    f = D.done()
    if f and f[0] == 'violated':
        o.key = 'routing-by-app-id'
    return D


def app_load(chk, ex):
    o = chk.ob('load-fills-only-unset', 'App::load: reads the record stored under the app id; each of cohort id / hint / name and user counting is taken from storage iff the embedder left it unset; a missing or malformed record changes nothing')
    D = Decide(chk, ex, o, cross=False)
    fn = find_method(ex, 'App::load')
    PT = 'std::result::Result<common::PersistedApp, serde_json::Error>'
    ex.model_patterns.insert(0, (re.compile(r'^serde_json::from_str::<'), lambda ex_, st, args, dty, canon: env_event(ex_, st, 'serde_json::from_str', (ex_.snapshot(st, args[0]),), dty or PT)))
    st0 = State()
    app = Tree({}, 'app', 'common::App')
    st0.cells['app'] = app
    res = drive_async(ex, fn, [Ptr('app'), Ptr('storage')], st0)
    ex.model_patterns.pop(0)
    D.no_bad_status(res)
    A = 'common::App'
    old_c = cohort_fields(ex, st0, ex.child(st0, app, fidx(ex, A, 'cohort'), 'protocol::Cohort'))
    old_u = uc_terms(ex, st0, ex.child(st0, app, fidx(ex, A, 'user_counting'), 'common::UserCounting'))
    aid = as_str(ex, st0, ex.child(st0, app, fidx(ex, A, 'id'), 'String')).t
    cover = set()
    for st in res:
        if st.status != 'done':
            continue
        evs = [e for e in st.trace if e.kind == 'env']
        a1 = ex.load(st, 'app', [])
        new_c = cohort_fields(ex, st, ex.child(st, a1, fidx(ex, A, 'cohort'), 'protocol::Cohort'))
        new_u = uc_terms(ex, st, ex.child(st, a1, fidx(ex, A, 'user_counting'), 'common::UserCounting'))
        if not evs or not evs[0].name.endswith('::get_string'):
            D.failed = D.failed or ('violated', 'load does not read storage first', None, st)
            continue
        D.require(st, as_str(ex, st, evs[0].args[1]).t == aid, 'the record is read under the app id')
        stored = Tree({}, evs[0].out + '!out', OS)
        has = dval(ex, st, ex.discr_of(st, stored).t)
        unchanged = z3.And(*[opt_str_eq(g, o_) for g, o_ in zip(new_c, old_c)] + [uc_eq(new_u, old_u)])
        if has == 0:
            cover.add('absent')
            D.require(st, unchanged, 'no record: nothing changes')
            continue
        pe = [e for e in evs if e.name == 'serde_json::from_str']
        if len(pe) != 1:
            D.failed = D.failed or ('violated', 'record not parsed exactly once', None, st)
            continue
        pr = Tree({}, pe[0].out, None)
        okp = dval(ex, st, ex.discr_of(st, pr).t)
        if okp == 1:
            cover.add('malformed')
            D.require(st, unchanged, 'malformed record: nothing changes')
            continue
        cover.add('loaded')
        pa = payload(ex, st, pr, 0, 0, 'common::PersistedApp')
        pc_ = cohort_fields(ex, st, ex.child(st, pa, fidx(ex, 'common::PersistedApp', 'cohort'), 'protocol::Cohort'))
        pu = uc_terms(ex, st, ex.child(st, pa, fidx(ex, 'common::PersistedApp', 'user_counting'), 'common::UserCounting'))
        for g, o_, p_ in zip(new_c, old_c, pc_):
            D.require(st, z3.If(o_[0], opt_str_eq(g, o_), opt_str_eq(g, p_)), 'cohort field restored iff unset')
        D.require(st, z3.If(old_u[0], uc_eq(new_u, old_u), uc_eq(new_u, pu)), 'user counting restored iff unset')
    if cover != {'absent', 'malformed', 'loaded'}:
        D.failed = D.failed or ('inconclusive', 'vacuous %s' % sorted(cover), None, None)
    f = D.done()
    if f and f[0] == 'violated':
        o.key = o.name
    return D


def app_persist(chk, ex):
    o = chk.ob('persist-under-app-id', 'App::persist writes, under the app id, the serialisation of exactly (cohort, user counting) of the app; a storage failure is ignored')
    D = Decide(chk, ex, o, cross=False)
    fn = find_method(ex, 'App::persist')
    ex.model_patterns.insert(0, (re.compile(r'^serde_json::to_string::<'), lambda ex_, st, args, dty, canon: env_event(ex_, st, 'serde_json::to_string', (ex_.snapshot(st, args[0]),), dty)))
    st0 = State()
    app = Tree({}, 'app', 'common::App')
    st0.cells['app'] = app
    res = drive_async(ex, fn, [Ptr('app'), Ptr('storage')], st0)
    ex.model_patterns.pop(0)
    D.no_bad_status(res)
    A = 'common::App'
    for st in res:
        if st.status != 'done':
            continue
        evs = [e for e in st.trace if e.kind == 'env']
        ser = [e for e in evs if e.name == 'serde_json::to_string']
        if len(ser) != 1:
            D.failed = D.failed or ('violated', 'no serialisation', None, st)
            continue
        a = ser[0].args[0]
        pv = a[2] if isinstance(a, tuple) else a
        c = ex.child(st, pv, fidx(ex, 'common::PersistedApp', 'cohort'), 'protocol::Cohort')
        u = ex.child(st, pv, fidx(ex, 'common::PersistedApp', 'user_counting'), 'common::UserCounting')
        if not ex.veq(c, ex.child(st, app, fidx(ex, A, 'cohort'), 'protocol::Cohort')) or not ex.veq(u, ex.child(st, app, fidx(ex, A, 'user_counting'), 'common::UserCounting')):
            D.failed = D.failed or ('violated', 'the persisted record is not (cohort, user counting) of the app', None, st)
        okser = dval(ex, st, ex.discr_of(st, Tree({}, ser[0].out, None)).t)
        sets = [e for e in evs if e.name.endswith('::set_string')]
        if okser == 0:
            if len(sets) != 1:
                D.failed = D.failed or ('violated', 'record not written exactly once', None, st)
                continue
            js = payload(ex, st, Tree({}, ser[0].out, None), 0, 0, 'String')
            D.require(st, z3.And(as_str(ex, st, sets[0].args[1]).t == as_str(ex, st, ex.child(st, app, fidx(ex, A, 'id'), 'String')).t,
                                 as_str(ex, st, sets[0].args[2]).t == as_str(ex, st, js).t), 'written under the app id, with the serialised text')
        elif sets:
            D.failed = D.failed or ('violated', 'wrote although serialisation failed', None, st)
    f = D.done()
    if f and f[0] == 'violated':
        o.key = o.name
    return D


def wire_mapping(chk, ex):
    o = chk.ob('wire-mapping', 'From<AppEntry> for ProtocolApp: cohort passed through unchanged, ping present iff requested with ad == rd == the stored day number; UserCounting::from(daystart) takes the response\'s elapsed days (cleared if none)')
    D = Decide(chk, ex, o, cross=False)
    cands = [f for f in ex.order if f.kind == 'fn' and f.name.endswith('::from') and len(f.args) == 1 and f.args[0][1].split('::')[-1] == 'AppEntry']
    if len(set(f.text_hash for f in cands)) != 1:
        raise Inconclusive('From<AppEntry> not found')
    st0 = State()
    entry = Tree({}, 'entry', 'request_builder::AppEntry')
    res = ex.run_fn(cands[0], [entry], st0)
    D.no_bad_status(res)
    E = 'request_builder::AppEntry'
    A = 'common::App'
    P = 'protocol::request::App'
    app = ex.child(st0, entry, fidx(ex, E, 'app'), A)
    want_ping = ex.child(st0, entry, fidx(ex, E, 'ping'), 'bool').t
    days = uc_terms(ex, st0, ex.child(st0, app, fidx(ex, A, 'user_counting'), 'common::UserCounting'))
    for st in res:
        if st.status != 'done':
            continue
        r = st.result
        coh = ex.child(st, r, fidx(ex, P, 'cohort'), 'std::option::Option<protocol::Cohort>')
        D.require(st, ex.discr_of(st, coh).t == 1, 'cohort always sent')
        if not ex.veq(payload(ex, st, coh, 1, 0, 'protocol::Cohort'), ex.child(st, app, fidx(ex, A, 'cohort'), 'protocol::Cohort')):
            D.failed = D.failed or ('violated', 'cohort on the wire differs from the app\'s', None, st)
        ping = ex.child(st, r, fidx(ex, P, 'ping'), 'std::option::Option<protocol::request::Ping>')
        pd = ex.discr_of(st, ping).t
        pv = payload(ex, st, ping, 1, 0, 'protocol::request::Ping')
        ad = payload(ex, st, ex.child(st, pv, 0, 'std::option::Option<u32>'), 1, 0, 'u32').t
        add = ex.discr_of(st, ex.child(st, pv, 0, 'std::option::Option<u32>')).t
        rd = payload(ex, st, ex.child(st, pv, 1, 'std::option::Option<u32>'), 1, 0, 'u32').t
        rdd = ex.discr_of(st, ex.child(st, pv, 1, 'std::option::Option<u32>')).t
        D.require(st, z3.If(want_ping, z3.And(pd == 1, (add == 1) == days[0], (rdd == 1) == days[0], z3.Implies(days[0], z3.And(ad == days[1], rd == days[1]))), pd == 0),
                  'ping iff requested, ad == rd == stored day')
        D.require(st, as_str(ex, st, ex.child(st, r, fidx(ex, P, 'id'), 'String')).t == as_str(ex, st, ex.child(st, app, fidx(ex, A, 'id'), 'String')).t, 'app id passed through')
        D.require(st, opt_str_eq(opt_str(ex, st, ex.child(st, r, fidx(ex, P, 'fingerprint'), OS)), opt_str(ex, st, ex.child(st, app, fidx(ex, A, 'fingerprint'), OS))), 'fingerprint passed through')
    # UserCounting::from(Option<DayStart>)
    cands = [f for f in ex.order if f.kind == 'fn' and f.name.endswith('::from') and len(f.args) == 1 and 'DayStart' in f.args[0][1] and f.ret.endswith('UserCounting')]
    if len(set(f.text_hash for f in cands)) != 1:
        raise Inconclusive('From<Option<DayStart>> not found')
    st0 = State()
    ds = Tree({}, 'ds', 'std::option::Option<protocol::response::DayStart>')
    res = ex.run_fn(cands[0], [ds], st0)
    D.no_bad_status(res)
    for st in res:
        if st.status != 'done':
            continue
        got = uc_terms(ex, st, st.result)
        has = ex.discr_of(st, ds).t == 1
        dv = payload(ex, st, ds, 1, 0, 'protocol::response::DayStart')
        el = ex.child(st, dv, fidx(ex, 'protocol::response::DayStart', 'elapsed_days'), 'std::option::Option<u32>')
        want = (z3.And(has, ex.discr_of(st, el).t == 1), payload(ex, st, el, 1, 0, 'u32').t)
        D.require(st, uc_eq(got, want), 'user counting == response day number, cleared if absent')
    f = D.done()
    if f and f[0] == 'violated':
        o.key = o.name
    return D


def responses_carry_daystart(chk, ex, napps):
    o = chk.ob('responses-carry-daystart[%d apps]' % napps, 'StateMachine::make_app_responses (every check that ends without an install): one AppResponse per app of the server response, in order, each with that app\'s id and cohort and with the response\'s day number as user counting (cleared if the response has none) - for every app, not only the first')
    D = Decide(chk, ex, o, cross=False)
    fn = find_method(ex, 'StateMachine::make_app_responses')
    RSP = 'protocol::response::Response'
    RA = 'protocol::response::App'
    R = 'update_check::AppResponse'
    st0 = State()
    rapps = [Tree({}, 'rapp%d' % i, RA) for i in range(napps)]
    resp = Tree({}, 'srvresp', RSP)
    ds = ex.child(st0, resp, fidx(ex, RSP, 'daystart'), 'std::option::Option<protocol::response::DayStart>')
    resp.f[fidx(ex, RSP, 'apps')] = mk_vec(rapps, 'Vec<protocol::response::App>')
    res = ex.run_fn(fn, [resp, Tree({}, 'action', 'update_check::Action')], st0)
    D.no_bad_status(res)
    n = 0
    for st in res:
        if st.status != 'done':
            continue
        n += 1
        items = vec_items(ex, st, st.result, R)
        if len(items) != napps:
            D.failed = D.failed or ('violated', '%d app responses for %d apps in the server response' % (len(items), napps), None, st)
            continue
        has = ex.discr_of(st, ds).t == 1
        dv = payload(ex, st, ds, 1, 0, 'protocol::response::DayStart')
        el = ex.child(st, dv, fidx(ex, 'protocol::response::DayStart', 'elapsed_days'), 'std::option::Option<u32>')
        want = (z3.And(has, ex.discr_of(st, el).t == 1), payload(ex, st, el, 1, 0, 'u32').t)
        for i, r in enumerate(items):
            got = uc_terms(ex, st, ex.child(st, r, fidx(ex, R, 'user_counting'), 'common::UserCounting'))
            D.require(st, uc_eq(got, want), 'app response %d carries the response\'s day number (cleared if absent)' % i)
            rid = as_str(ex, st, ex.child(st, r, fidx(ex, R, 'app_id'), 'String')).t
            aid = as_str(ex, st, ex.child(st, rapps[i], fidx(ex, RA, 'id'), 'String')).t
            D.require(st, rid == aid, 'app response %d names app %d of the server response' % (i, i))
            gc = cohort_fields(ex, st, ex.child(st, r, fidx(ex, R, 'cohort'), 'protocol::Cohort'))
            wc = cohort_fields(ex, st, ex.child(st, rapps[i], fidx(ex, RA, 'cohort'), 'protocol::Cohort'))
            D.require(st, z3.And(*[opt_str_eq(a, b) for a, b in zip(gc, wc)]), 'app response %d carries its app\'s cohort fields' % i)
    if n == 0:
        D.failed = D.failed or ('inconclusive', 'make_app_responses: no completed path', None, None)
    f = D.done()
    if f and f[0] == 'violated':
        o.key = 'responses-carry-daystart'
    return D


def run(chk):
    ex = make_sm_executor(chk, dict(unroll=8 if chk.tier == 'quick' else 14, env_assume=None, shape=lambda o, t: 2), cuts=())
    cohort_merge(chk, ex)
    shapes = [(1, 1), (2, 2)] if chk.tier == 'quick' else [(1, 1), (2, 2), (3, 3), (1, 3), (3, 1)]
    for na, nr in shapes:
        app_set_update(chk, ex, na, nr)
    app_load(chk, ex)
    app_persist(chk, ex)
    wire_mapping(chk, ex)
    for na in ((1, 2) if chk.tier == 'quick' else (1, 2, 3)):
        responses_carry_daystart(chk, ex, na)
    chk.absorb(ex)
    sutmon.monitor_start_update_check(chk, (1, 2))
    sutmon.monitor_ping(chk, 1, 2)
    keep = [o.name for o in chk.obligations if o.name.startswith(('cohort', 'routing', 'load-', 'persist-under', 'wire-', 'responses-carry'))] + ['app-set-updated-only-on-success', 'ping-bookkeeping']
    chk.obligations = [o for o in chk.obligations if o.name in keep]
    chk.bounds.update({'apps x responses': [list(s) for s in shapes], 'strings': 'unbounded (z3 string theory; only equality and emptiness are used)'})
    chk.assumptions += [
        'serde_json::{from_str,to_string} for PersistedApp are events (arbitrary Result / text): the JSON text itself is outside',
        'AppSet::iter_mut_apps yields the apps of the set in order (VecAppSet); app ids symbolic, so duplicates and unknown ids occur',
        'check/ping flows: see C08',
    ]


if __name__ == '__main__':
    chk = Check('C09')
    try:
        run(chk)
    except Exception as e:          # nothing the engine cannot digest may look like a verdict: exit 2
        import traceback
        o = chk.ob('engine', 'executor could not interpret the code')
        o.status = 'inconclusive'
        o.detail = ('%s: %s' % (type(e).__name__, e)) if not isinstance(e, Inconclusive) else str(e)
        if not isinstance(e, Inconclusive):
            o.detail += ' | ' + ' <- '.join(l.strip() for l in traceback.format_exc().strip().split('\n')[-7:-1:2])
    sys.exit(chk.finish())
