#!/usr/bin/env python3
"""C15 — Requests have exactly the Omaha v3 wire shape (builder logic; serialisation structure)."""
import sys, os
sys.path.insert(0, os.path.dirname(os.path.abspath(__file__)))
from smbase import *
from smodels import as_str, vec_items, vec_len
from callers import dval
from tailmon import fidx
import smodels, c09

A = 'common::App'
P = 'protocol::request::App'
E = 'request_builder::AppEntry'
OPS = ['uc', 'ping', 'ev']


def _map_shape(origin, ty, st=None, ex=None):
    # an app's extra-field map: one arbitrary entry (key and value arbitrary strings, the value possibly empty)
    if 'HashMap' in (ty or '') or 'BTreeMap' in (ty or ''):
        return 1
    if ex is not None and re.match(r'^app\d+\.%d$' % fidx(ex, A, 'extra_fields'), origin or ''):
        return 1
    return None


def real_builder_executor(chk, cfg=None):
    c = dict(unroll=10, max_paths=200000, shape=_map_shape)
    if cfg:
        c.update(cfg)
    ex = make_sm_executor(chk, c, cuts=())
    ex.model_patterns = [(rx, f) for rx, f in ex.model_patterns if 'RequestBuilder' not in rx.pattern]
    return ex


def run(chk):
    K = 3 if chk.tier == 'quick' else 4
    NAPPS = 2 if chk.tier == 'quick' else 3
    builder_logic(chk, K, NAPPS)
    wire_conversion(chk)
    serde_structure(chk)
    c09.wire_mapping(chk, real_builder_executor(chk, dict(shape=lambda o_, t: 1)))
    chk.bounds.update({'add_* calls': K, 'apps': NAPPS})
    chk.assumptions += [
        'the bytes serde_json renders and hyper sends are outside; the check covers the value handed to serde (struct contents) and the derive attributes (field names, skip rules) on the source text',
        'HeaderName::as_str returns the standard name of the constant; logging off',
    ]


def builder_logic(chk, K, NAPPS, name='builder-logic'):
    ex = real_builder_executor(chk)
    o = chk.ob(name, 'for every sequence of up to %d add_update_check / add_ping / add_event calls over %d apps with arbitrary (possibly equal) ids: entries are unique by id in first-insertion order and keep the first insertion\'s app data; headers are content type, updater name, fg iff on-demand, first entry\'s app id; request fields come from config / params / the ids set; each app entry maps to the wire app with update-check flags from params, events in order, ping ad = rd = stored day; build leaves the builder unchanged' % (K, NAPPS))
    D = Decide(chk, ex, o, cross=False)
    fns = dict((n, find_method(ex, 'RequestBuilder::' + n)) for n in ('new', 'add_update_check', 'add_ping', 'add_event', 'session_id', 'request_id', 'build_intermediate'))
    st0 = State()
    for i in range(NAPPS):
        st0.cells['a%d' % i] = Tree({}, 'app%d' % i, A)
    res = ex.run_fn(fns['new'], [Ptr('config'), Ptr('params')], st0)
    D.no_bad_status(res)
    nseq = [0]
    samples = []

    GUIDS = {'session_id': 'sid', 'request_id': 'rid'}

    def finish(states, seq, plan=('session_id', 'request_id')):
        nseq[0] += 1
        for s in states:
            s2 = s.clone()
            s2.status = 'running'
            cur = [s2]
            for nm, arg in [(n_, Tree({}, GUIDS[n_], 'protocol::request::GUID')) for n_ in plan]:
                nxt = []
                for x in cur:
                    x.status = 'running'
                    nxt += ex.run_fn(fns[nm], [x.result, arg], x)
                cur = nxt
            for x in cur:
                if plan and x.status != 'done':
                    D.no_bad_status([x])
                    continue
                x.status = 'running'
                x.cells['b'] = x.result
                before = x.result
                outs = ex.run_fn(fns['build_intermediate'], [Ptr('b'), models.none()], x)
                for y in outs:
                    if y.status != 'done':
                        D.no_bad_status([y])
                        continue
                    check_built(ex, y, seq, before, D, plan)
                    if len(samples) < 5 and len(seq) == K:
                        samples.append({'ops': ['%s(app%d)' % o_ for o_ in seq], 'entries': spec_entries(ex, y, seq)[1]})

    def rec(states, seq):
        finish(states, seq)
        if len(seq) <= 1:
            # the id setters in the other order, alone, and not at all
            for plan in (('request_id', 'session_id'), ('session_id',), ('request_id',), ()):
                finish(states, seq, plan)
        if len(seq) >= K or D.failed:
            return
        for op in OPS:
            for a in range(NAPPS):
                nxt = []
                for s in states:
                    s2 = s.clone()
                    s2.status = 'running'
                    args = [s2.result, Ptr('a%d' % a)]
                    if op == 'ev':
                        args.append(Tree({}, 'ev%d' % len(seq), 'protocol::request::Event'))
                    nxt += ex.run_fn(fns[{'uc': 'add_update_check', 'ping': 'add_ping', 'ev': 'add_event'}[op]], args, s2)
                good = [x for x in nxt if x.status == 'done']
                D.no_bad_status(nxt)
                rec(good, seq + [(op, a)])
    rec([s for s in res if s.status == 'done'], [])
    chk.extra['builder'] = {'op_sequences': nseq[0], 'max_ops': K, 'apps': NAPPS}
    chk.samples.append({'builder_sequences': samples})
    f = D.done()
    if f and f[0] == 'violated':
        o.key = o.name
    chk.absorb(ex)


def spec_entries(ex, st, seq):
    """simulate the builder on this path's id-equality decisions -> list of (app index, uc?, ping?, [event names])"""
    entries = []
    ids = [as_str(ex, st, ex.child(st, Tree({}, 'app%d' % i, A), fidx(ex, A, 'id'), 'String')).t for i in range(8)]
    for k, (op, a) in enumerate(seq):
        hit = None
        for e in entries:
            eq = dval(ex, st, ids[e[0]] == ids[a]) if e[0] != a else 1
            if eq is None:
                return None, ids[e[0]] == ids[a]
            if eq == 1:
                hit = e
                break
        if hit is None:
            hit = [a, False, False, []]
            entries.append(hit)
        if op == 'uc':
            hit[1] = True
        elif op == 'ping':
            hit[2] = True
        else:
            hit[3].append('ev%d' % k)
    return entries, [(e[0], e[1], e[2], list(e[3])) for e in entries]


def check_built(ex, st, seq, before, D, plan=('session_id', 'request_id')):
    if D.failed:
        return
    def bad(msg):
        D.failed = D.failed or ('violated', '%s [ops %s]' % (msg, ['%s(app%d)' % o_ for o_ in seq]), None, st)
    entries, shown = spec_entries(ex, st, seq)
    if entries is None:
        # the code did not compare these two ids on this path: decide the property under either answer
        for c in (shown, z3.Not(shown)):
            if ex.check(st, [c]) == 'sat':
                s2 = st.clone()
                s2.pc.append(c)
                check_built(ex, s2, seq, before, D, plan)
        return
    if not ex.veq(ex.load(st, 'b', []), before):
        return bad('building altered the builder')
    r = st.result
    if dval(ex, st, ex.discr_of(st, r).t) != 0:
        return bad('build_intermediate failed without a handler')
    tup = payload(ex, st, r, 0, 0, None)
    inter = ex.child(st, tup, 0, 'request_builder::Intermediate')
    md = ex.child(st, tup, 1, None)
    D.require(st, ex.discr_of(st, md).t == 0, 'no metadata without a handler')
    I_ = 'request_builder::Intermediate'
    config = Tree({}, 'config', 'configuration::Config')
    params = Tree({}, 'params', 'request_builder::RequestParams')
    uri = as_str(ex, st, ex.child(st, inter, fidx(ex, I_, 'uri'), 'String')).t
    D.require(st, uri == as_str(ex, st, ex.child(st, config, fidx(ex, 'configuration::Config', 'service_url'), 'String')).t, 'uri == configured service url')
    hdrs = vec_items(ex, st, ex.child(st, inter, fidx(ex, I_, 'headers'), None))
    upd = ex.child(st, config, fidx(ex, 'configuration::Config', 'updater'), 'configuration::Updater')
    upd_name = as_str(ex, st, ex.child(st, upd, fidx(ex, 'configuration::Updater', 'name'), 'String')).t
    src = ex.discr_of(st, ex.child(st, params, fidx(ex, 'RequestParams', 'source'), 'InstallSource')).t
    ondemand = src == ex.src.variant_index('InstallSource', 'OnDemand')
    want_h = [(z3.StringVal('<content-type>'), z3.StringVal('application/json')),
              (z3.StringVal('X-Goog-Update-Updater'), upd_name),
              (z3.StringVal('X-Goog-Update-Interactivity'), z3.If(ondemand, z3.StringVal('fg'), z3.StringVal('bg')))]
    if entries:
        first_id = as_str(ex, st, ex.child(st, Tree({}, 'app%d' % entries[0][0], A), fidx(ex, A, 'id'), 'String')).t
        want_h.append((z3.StringVal('X-Goog-Update-AppId'), first_id))
    if len(hdrs) != len(want_h):
        return bad('%d headers, expected %d' % (len(hdrs), len(want_h)))
    for h, (wn, wv) in zip(hdrs, want_h):
        D.require(st, z3.And(as_str(ex, st, ex.child(st, h, 0, '&str')).t == wn, as_str(ex, st, ex.child(st, h, 1, 'String')).t == wv), 'header name/value')
    body = ex.child(st, inter, fidx(ex, I_, 'body'), 'protocol::request::RequestWrapper')
    req = ex.child(st, body, 0, 'protocol::request::Request')
    R = 'protocol::request::Request'
    D.require(st, z3.And(as_str(ex, st, ex.child(st, req, fidx(ex, R, 'protocol_version'), 'String')).t == z3.StringVal('3.0'),
                         as_str(ex, st, ex.child(st, req, fidx(ex, R, 'updater'), 'String')).t == upd_name,
                         ex.discr_of(st, ex.child(st, req, fidx(ex, R, 'install_source'), 'InstallSource')).t == src,
                         ex.child(st, req, fidx(ex, R, 'is_machine'), 'bool').t == True), 'request header fields')
    if not ex.veq(smodels.deref_all(ex, st, ex.child(st, req, fidx(ex, R, 'updater_version'), None)), ex.child(st, upd, fidx(ex, 'configuration::Updater', 'version'), 'version::Version')):
        return bad('updater version is not the configured one')
    if not ex.veq(ex.child(st, req, fidx(ex, R, 'os'), None), ex.child(st, config, fidx(ex, 'configuration::Config', 'os'), None)):
        return bad('os block is not the configured one')
    for fld, nm in (('request_id', 'rid'), ('session_id', 'sid')):
        g = ex.child(st, req, fidx(ex, R, fld), None)
        if fld not in plan:
            if dval(ex, st, ex.discr_of(st, g).t) != 0:
                return bad('%s present although never set (setters called: %s)' % (fld, list(plan)))
        elif dval(ex, st, ex.discr_of(st, g).t) != 1 or getattr(payload(ex, st, g, 1, 0, None), 'origin', None) != nm:
            return bad('%s is not the one set on the builder (setters called: %s)' % (fld, list(plan)))
    apps = vec_items(ex, st, ex.child(st, req, fidx(ex, R, 'apps'), None))
    if len(apps) != len(entries):
        return bad('%d apps on the wire, expected %d (%s)' % (len(apps), len(entries), shown))
    for pa, (ai, uc, ping, evs) in zip(apps, entries):
        app = Tree({}, 'app%d' % ai, A)
        D.require(st, as_str(ex, st, ex.child(st, pa, fidx(ex, P, 'id'), 'String')).t == as_str(ex, st, ex.child(st, app, fidx(ex, A, 'id'), 'String')).t, 'wire app id = first inserted app of that id')
        coh = ex.child(st, pa, fidx(ex, P, 'cohort'), None)
        if dval(ex, st, ex.discr_of(st, coh).t) != 1 or not ex.veq(payload(ex, st, coh, 1, 0, None), ex.child(st, app, fidx(ex, A, 'cohort'), 'protocol::Cohort')):
            return bad('wire app does not carry the cohort of the first insertion')
        if not ex.veq(smodels.deref_all(ex, st, ex.child(st, pa, fidx(ex, P, 'version'), None)), ex.child(st, app, fidx(ex, A, 'version'), 'version::Version')):
            return bad('wire app version is not the app version')
        ucv = ex.child(st, pa, fidx(ex, P, 'update_check'), None)
        ucd = dval(ex, st, ex.discr_of(st, ucv).t)
        if ucd != (1 if uc else 0):
            return bad('update check presence wrong for app %d' % ai)
        if uc:
            u = payload(ex, st, ucv, 1, 0, 'protocol::request::UpdateCheck')
            D.require(st, z3.And(ex.child(st, u, 0, 'bool').t == ex.child(st, params, fidx(ex, 'RequestParams', 'disable_updates'), 'bool').t,
                                 ex.child(st, u, 1, 'bool').t == ex.child(st, params, fidx(ex, 'RequestParams', 'offer_update_if_same_version'), 'bool').t),
                      'update-check flags come from the request parameters')
        pg = ex.child(st, pa, fidx(ex, P, 'ping'), None)
        if dval(ex, st, ex.discr_of(st, pg).t) != (1 if ping else 0):
            return bad('ping presence wrong for app %d' % ai)
        # extra fields verbatim: the same map, or a rebuilt one with the same entries
        wx = smodels.deref_all(ex, st, ex.child(st, pa, fidx(ex, P, 'extra_fields'), None))
        ax = ex.child(st, app, fidx(ex, A, 'extra_fields'), None)
        if not ex.veq(wx, ax):
            if not (isinstance(wx, Tree) and wx.meta and wx.meta[0] == 'map'):
                return bad('the wire app\'s extra fields are not the app\'s extra fields')
            went = [wx.f[i] for i in range(wx.meta[1])]
            aent = vec_items(ex, st, ax)
            if len(went) != len(aent):
                return bad('%d extra fields on the wire, the app has %d' % (len(went), len(aent)))
            for we, ae in zip(went, aent):
                D.require(st, z3.And(as_str(ex, st, ex.child(st, we, 0, None)).t == as_str(ex, st, ex.child(st, ae, 0, None)).t,
                                     as_str(ex, st, ex.child(st, we, 1, None)).t == as_str(ex, st, ex.child(st, ae, 1, None)).t), 'extra field carried verbatim')
        wev = vec_items(ex, st, ex.child(st, pa, fidx(ex, P, 'events'), None))
        if [getattr(v, 'origin', None) for v in wev] != evs:
            return bad('events of app %d are %s, expected %s' % (ai, [getattr(v, 'origin', None) for v in wev], evs))


def wire_conversion(chk):
    """From<Intermediate> for Result<http::Request>: POST to the uri, the headers in order, the serialised body"""
    ex = real_builder_executor(chk)
    o = chk.ob('http-request-assembly', 'the Intermediate becomes a POST to its uri with its headers in order and the serialisation of its body; serialize_body serialises exactly the body (the same call serves CUP metadata)')
    D = Decide(chk, ex, o, cross=False)
    log = []

    def rec(name, result_of):
        def f(ex_, st, args, dty, canon):
            v = smodels.env_event(ex_, st, name, tuple(ex_.snapshot(st, a) for a in args), dty)
            return v
        return f
    pats = [(r'^(hyper::|http::)?Request::<\(\)>::post::<.*>$|Request::<.*>::post', 'Request::post'), (r'Builder::header::<', 'Builder::header'), (r'Builder::body::<', 'Builder::body'),
            (r'^serde_json::to_vec::<', 'serde_json::to_vec')]
    for rx, nm in pats:
        ex.model_patterns.insert(0, (re.compile(rx), rec(nm, None)))
    cands = [f for f in ex.order if f.kind == 'fn' and f.name.endswith('::from') and len(f.args) == 1 and f.args[0][1].split('::')[-1] == 'Intermediate']
    if len(set(f.text_hash for f in cands)) != 1:
        raise Inconclusive('From<Intermediate> not found')
    st0 = State()
    hv = smodels.mk_vec([Tree({0: Sc(z3.String('hn%d' % i), 'str'), 1: Sc(z3.String('hv%d' % i), 'str')}, None, None) for i in range(3)], 'Vec<(&str, String)>')
    inter = Tree({0: Sc(z3.String('uri'), 'str'), 1: hv, 2: Tree({}, 'body', 'protocol::request::RequestWrapper')}, None, 'request_builder::Intermediate')
    res = ex.run_fn(cands[0], [inter], st0)
    D.no_bad_status(res)
    nok = 0
    for st in res:
        if st.status != 'done':
            continue
        evs = [e for e in st.trace if e.kind == 'env']
        names = [e.name for e in evs]
        if names[:4] != ['Request::post', 'Builder::header', 'Builder::header', 'Builder::header']:
            D.failed = D.failed or ('violated', 'request assembly is %s' % names, None, st)
            continue
        def sv(a):
            while isinstance(a, tuple) and a and a[0] == 'ref':
                a = a[2]
            return a
        D.require(st, as_str(ex, st, sv(evs[0].args[0])).t == z3.String('uri'), 'POST to the intermediate\'s uri')
        for i in range(3):
            e = evs[1 + i]
            D.require(st, z3.And(as_str(ex, st, sv(e.args[1])).t == z3.String('hn%d' % i), as_str(ex, st, sv(e.args[2])).t == z3.String('hv%d' % i)), 'header %d in order' % i)
        ser = [e for e in evs if e.name == 'serde_json::to_vec']
        if len(ser) != 1:
            D.failed = D.failed or ('violated', 'body serialised %d times' % len(ser), None, st)
            continue
        b = ser[0].args[0]
        bv = b[2] if isinstance(b, tuple) else b
        if getattr(bv, 'origin', None) != 'body':
            D.failed = D.failed or ('violated', 'something else than the body is serialised', None, st)
        if 'Builder::body' in names:
            nok += 1
    if nok == 0:
        D.failed = D.failed or ('inconclusive', 'vacuous', None, None)
    f = D.done()
    if f and f[0] == 'violated':
        o.key = o.name
    chk.absorb(ex)


def serde_structure(chk):
    """field names / skip rules of the derived Serialize impls, read from the source attributes"""
    o = chk.ob('serde-attributes', 'protocol field names and skip rules on Request / App / UpdateCheck / Ping / Event / Cohort are the Omaha v3 ones (renames and skip_serializing_if read from the current source)')
    src = open(os.path.join(common.SRC, 'protocol', 'request.rs')).read()
    src2 = open(os.path.join(common.SRC, 'protocol.rs')).read()
    want = {
        'Request': [('protocol_version', 'protocol', None), ('updater', None, None), ('updater_version', 'updaterversion', None), ('install_source', 'installsource', None),
                    ('is_machine', 'ismachine', None), ('request_id', 'requestid', 'Option::is_none'), ('session_id', 'sessionid', 'Option::is_none'), ('os', None, None), ('apps', 'app', None)],
        'App': [('id', 'appid', None), ('version', None, None), ('fingerprint', 'fp', 'Option::is_none'), ('cohort', None, None), ('update_check', 'updatecheck', 'Option::is_none'),
                ('events', 'event', 'Vec::is_empty'), ('ping', None, 'Option::is_none'), ('extra_fields', None, None)],
        'UpdateCheck': [('disabled', 'updatedisabled', 'std::ops::Not::not'), ('offer_update_if_same_version', 'sameversionupdate', 'std::ops::Not::not')],
        'Ping': [('date_last_active', 'ad', 'Option::is_none'), ('date_last_roll_call', 'rd', 'Option::is_none')],
        'Event': [('event_type', 'eventtype', None), ('event_result', 'eventresult', None), ('errorcode', None, 'Option::is_none'),
                  ('previous_version', 'previousversion', 'Option::is_none'), ('next_version', 'nextversion', 'Option::is_none'), ('download_time_ms', None, 'Option::is_none')],
    }
    problems = []
    n = 0
    for st_name, fields in want.items():
        m = re.search(r'pub struct %s\s*\{(.*?)\n\}' % st_name, src, re.S)
        if not m:
            problems.append('struct %s not found' % st_name)
            continue
        body = m.group(1)
        for fname, rename, skip in fields:
            mm = re.search(r'((?:\s*(?:#\[[^\]]*\]|///[^\n]*)\s*)*)\s*pub %s\s*:' % fname, body)
            if not mm:
                problems.append('%s.%s missing' % (st_name, fname))
                continue
            attrs = mm.group(1)
            n += 1
            r = re.search(r'rename\s*=\s*"([^"]+)"', attrs)
            if (r.group(1) if r else None) != rename:
                problems.append('%s.%s renamed to %r, expected %r' % (st_name, fname, r.group(1) if r else None, rename))
            s_ = re.search(r'skip_serializing_if\s*=\s*"([^"]+)"', attrs)
            if (s_.group(1) if s_ else None) != skip:
                problems.append('%s.%s skip rule %r, expected %r' % (st_name, fname, s_.group(1) if s_ else None, skip))
    m = re.search(r'pub struct Cohort\s*\{(.*?)\n\}', src2, re.S)
    if m:
        for fname, rename in (('id', 'cohort'), ('hint', 'cohorthint'), ('name', 'cohortname')):
            mm = re.search(r'((?:\s*(?:#\[[^\]]*\]|///[^\n]*)\s*)*)\s*pub %s\s*:' % fname, m.group(1))
            attrs = mm.group(1) if mm else ''
            n += 1
            r = re.search(r'rename\s*=\s*"([^"]+)"', attrs)
            if (r.group(1) if r else None) != rename or 'skip_serializing_if = "Option::is_none"' not in attrs:
                problems.append('Cohort.%s attributes %r' % (fname, attrs.strip()[:80]))
    else:
        problems.append('Cohort not found')
    if 'flatten' not in re.search(r'((?:\s*#\[[^\]]*\]\s*)*)\s*pub extra_fields', src).group(1):
        problems.append('extra fields are not flattened')
    if not re.search(r'Serialize for GUID|impl Serialize for GUID', src) and 'braced' not in src:
        pass
    o.status = 'holds' if not problems else 'violated'
    o.detail = '%d field attributes as specified' % n if not problems else '; '.join(problems)[:500]
    o.key = o.name
    o.cex = {'problems': problems} if problems else None


if __name__ == '__main__':
    chk = Check('C15')
    try:
        run(chk)
    except Exception as e:          # nothing the engine cannot digest may look like a verdict: exit 2
        import traceback
        o = chk.ob('engine', 'executor could not interpret the code')
        o.status = 'inconclusive'
        o.detail = ('%s: %s' % (type(e).__name__, e)) if not isinstance(e, Inconclusive) else str(e)
        if not isinstance(e, Inconclusive):
            o.detail += ' | ' + ' <- '.join(l.strip() for l in traceback.format_exc().strip().split('\n')[-7:-1:2])
    sys.exit(chk.finish())
